"""Harness-side Runner implementations, written against labtech's public Runner / RunnerBackend ABCs.

ControlledRunner  in-process; executes a task at the moment it would start (with a snapshot of the results held
                  then, like a forked child) and lets the case's schedule decide which in-flight tasks complete in
                  each wait() batch, in which order. The system under test is labtech's coordinator (lab.py),
                  run_or_load_task, caches and storage.
SpyRunner         pass-through around the real serial/fork/spawn runners that logs every call; with gating it
                  owns the completion order of real worker processes (nodes block in run() on gate files).
"""
from __future__ import annotations

import os
import pickle
import time
from typing import Iterator, Optional, Sequence

from labtech.exceptions import TaskDiedError
from labtech.runners.base import run_or_load_task
from labtech import tasks as _lt_tasks

# what the Runner.submit_task docstring prescribes for attaching the results map
_dependency_objects = getattr(_lt_tasks, 'get_direct_dependency_instances', _lt_tasks.get_direct_dependencies)
from labtech.types import LabContext, ResultMeta, Runner, RunnerBackend, Storage, Task, TaskResult

from pbt.universe import vu


class HarnessTimeout(BaseException):
    pass


def _pid_gone(pid) -> bool:
    """True if the process has exited (no longer exists, or is a zombie waiting to be reaped)."""
    if pid is None:
        return False
    try:
        with open(f'/proc/{pid}/stat', 'rb') as f:
            data = f.read().decode('ascii', 'replace')
        return data.rsplit(')', 1)[1].split()[0] == 'Z'
    except (OSError, IndexError):
        return True


class Chooser:
    """Deterministic source of choices driven by the spec's schedule (ints). choice(n) in [0, n)."""

    def __init__(self, schedule: Sequence[int]):
        self.schedule = list(schedule)
        self.i = 0
        self.trail: list[tuple[int, int]] = []

    def choice(self, n: int) -> int:
        if n <= 1:
            return 0
        v = (self.schedule[self.i] % n) if self.i < len(self.schedule) else 0
        self.i += 1
        self.trail.append((n, v))
        return v

    def chance(self, n: int) -> bool:
        """A yes/no decision taken with probability 1/n by the schedule-driven chooser (a plain binary branch when enumerating)."""
        return self.choice(n) == n - 1


class PathChooser(Chooser):
    """Used by exhaustive enumeration: follows an explicit path, then takes 0; records branching factors."""

    def __init__(self, path: Sequence[int]):
        super().__init__([])
        self.path = list(path)

    def choice(self, n: int) -> int:
        if n <= 1:
            return 0
        v = self.path[self.i] if self.i < len(self.path) else 0
        self.i += 1
        self.trail.append((n, v))
        return v

    def chance(self, n: int) -> bool:
        return self.choice(2) == 1


class Control:
    """Shared between the harness and the runner it hands to labtech: choices in, event log out."""

    def __init__(self, chooser: Chooser, *, cpu_default: Optional[int] = None, gated: bool = False,
                 obs_dir: Optional[str] = None, idle_rounds: int = 2, deadline: Optional[float] = None,
                 rest_hook=None):
        self.chooser = chooser
        self.cpu_default = cpu_default or os.cpu_count() or 1
        self.events: list[tuple] = []
        self.gated = gated
        self.obs_dir = obs_dir
        self.idle_budget = idle_rounds
        self.deadline = deadline
        self.rest_hook = rest_hook
        self.runner = None

    def log(self, *ev) -> None:
        self.events.append(ev)


# ---------------------------------------------------------------------------------------------------
# ControlledRunner
# ---------------------------------------------------------------------------------------------------

class ControlledRunner(Runner):

    def __init__(self, *, context: LabContext, storage: Storage, max_workers: Optional[int], ctl: Control):
        self.context = context
        self.storage = storage
        self.ctl = ctl
        self.max_workers = ctl.cpu_default if max_workers is None else max_workers
        self.queue: list[tuple[Task, str, bool]] = []
        self.running: list[tuple[Task, object]] = []   # (task, TaskResult | BaseException), already executed
        self.results_map: dict[Task, TaskResult] = {}
        self.wait_calls = 0
        self.empty_waits = 0
        ctl.runner = self

    # -- helpers ---------------------------------------------------------------------------------
    def _names(self, tasks) -> list[str]:
        return [t.name for t in tasks]

    def _execute(self, task: Task, task_name: str, use_cache: bool):
        snapshot = dict(self.results_map)   # what a child forked now would see
        self.ctl.log('start', task.name, use_cache, sorted(self._names(snapshot)), type(task).__name__)
        for dependency_task in _dependency_objects(task):
            dependency_task._set_results_map(snapshot)
        prev = os.environ.get('VERIF_INPROC')
        os.environ['VERIF_INPROC'] = '1'
        try:
            res = run_or_load_task(task=task, task_name=task_name, use_cache=use_cache,
                                   filtered_context=task.filter_context(self.context), storage=self.storage)
        except KeyboardInterrupt:
            raise
        except vu.SimulatedDeath:
            return TaskDiedError()
        except BaseException as ex:
            try:
                return pickle.loads(pickle.dumps(ex))   # what survives a process boundary
            except Exception:
                return TaskDiedError()
        finally:
            if prev is None:
                os.environ.pop('VERIF_INPROC', None)
            else:
                os.environ['VERIF_INPROC'] = prev
        try:
            return pickle.loads(pickle.dumps(res))
        except Exception:
            return TaskDiedError()

    def _start(self) -> None:
        while self.queue and len(self.running) < self.max_workers:
            task, task_name, use_cache = self.queue.pop(0)
            outcome = self._execute(task, task_name, use_cache)
            self.running.append((task, outcome))

    # -- Runner API --------------------------------------------------------------------------------
    def submit_task(self, task: Task, task_name: str, use_cache: bool) -> None:
        self.ctl.log('submit', task.name, use_cache, type(task).__name__,
                     self._names(t for t, _ in self.running) + self._names(t for t, _, _ in self.queue))
        self.queue.append((task, task_name, use_cache))
        self._start()

    def wait(self, *, timeout_seconds: Optional[float]) -> Iterator[tuple[Task, ResultMeta | BaseException]]:
        self.wait_calls += 1
        inflight = self._names(t for t, _ in self.running)
        self.ctl.log('wait', inflight, self._names(t for t, _, _ in self.queue), sorted(self._names(self.results_map)))
        if not self.running:
            # nothing executing and nothing queued: the coordinator is waiting for a completion that cannot come
            self.empty_waits += 1
            if self.empty_waits > 25:
                raise HarnessTimeout('wait() called repeatedly with nothing in flight')
            return
        ch = self.ctl.chooser
        if self.ctl.idle_budget > 0 and ch.chance(5):
            self.ctl.idle_budget -= 1
            self.ctl.log('idle')
            return
        k = 1 + ch.choice(len(self.running))
        batch = []
        pool = list(self.running)
        for _ in range(k):
            batch.append(pool.pop(ch.choice(len(pool))))
        self.running = pool
        self._start()   # freed slots are filled before the batch is handed over (as ProcessExecutor.wait does)
        self.ctl.log('batch', self._names(t for t, _ in batch))
        for task, outcome in batch:
            if isinstance(outcome, BaseException):
                self.ctl.log('yield', task.name, 'exc', type(outcome).__name__)
                yield (task, outcome)
            else:
                self.results_map[task] = outcome
                self.ctl.log('yield', task.name, 'ok')
                yield (task, outcome.meta)
            self.ctl.log('delivered', task.name, sorted(self._names(self.results_map)))

    def cancel(self) -> None:
        self.ctl.log('cancel', self._names(t for t, _, _ in self.queue))
        self.queue.clear()

    def stop(self) -> None:
        self.ctl.log('stop', self._names(t for t, _ in self.running))
        self.running.clear()

    def close(self) -> None:
        self.ctl.log('close', sorted(self._names(self.results_map)))

    def pending_task_count(self) -> int:
        return len(self.queue) + len(self.running)

    def get_result(self, task: Task) -> TaskResult:
        self.ctl.log('get_result', task.name, task in self.results_map)
        return self.results_map[task]

    def remove_results(self, tasks: Sequence[Task]) -> None:
        tasks = list(tasks)
        self.ctl.log('remove', self._names(tasks), sorted(self._names(self.results_map)))
        for task in tasks:
            self.results_map.pop(task, None)

    def get_task_infos(self):
        return []


class ControlledBackend(RunnerBackend):

    def __init__(self, ctl: Control):
        self.ctl = ctl

    def build_runner(self, *, context: LabContext, storage: Storage, max_workers: Optional[int]) -> ControlledRunner:
        return ControlledRunner(context=context, storage=storage, max_workers=max_workers, ctl=self.ctl)


# ---------------------------------------------------------------------------------------------------
# SpyRunner
# ---------------------------------------------------------------------------------------------------

class SpyRunner(Runner):

    def __init__(self, real: Runner, ctl: Control, max_workers: Optional[int], serial: bool):
        self.real = real
        self.ctl = ctl
        self.serial = serial
        self.max_workers = 1 if serial else (ctl.cpu_default if max_workers is None else max_workers)
        self.submitted: dict[str, bool] = {}      # name -> use_cache
        self.yielded: set[str] = set()
        self.released: set[str] = set()
        self.cancelled = False
        self.empty_waits = 0
        ctl.runner = self

    # -- gating helpers --------------------------------------------------------------------------------
    def _inside_run(self) -> list[str]:
        started, ended = [], set()
        for rec in vu.read_trace(self.ctl.obs_dir):
            if rec[0] == 'S':
                started.append(rec[1])
            elif rec[0] in ('E', 'X', 'K'):
                ended.add(rec[1])
        return [n for n in started if n not in ended]

    def _check_deadline(self):
        if self.ctl.deadline is not None and time.monotonic() > self.ctl.deadline:
            raise HarnessTimeout('case deadline exceeded inside SpyRunner.wait')

    def _await_exit(self, names, limit_s: float = 3.0) -> None:
        t_end = time.monotonic() + limit_s
        pids = {}
        while time.monotonic() < t_end:
            done = set()
            for rec in vu.read_trace(self.ctl.obs_dir):
                if rec[0] == 'S' and rec[1] in names:
                    pids[rec[1]] = rec[2]
                elif rec[0] in ('E', 'X', 'K') and rec[1] in names:
                    done.add(rec[1])
            if all(n in done for n in names) and all(_pid_gone(pids.get(n)) for n in names):
                time.sleep(0.01)
                return
            time.sleep(0.005)

    def _release(self, names) -> None:
        for n in names:
            self.released.add(n)
            with open(os.path.join(self.ctl.obs_dir, f'gate.{n}'), 'w'):
                pass

    def submit_task(self, task: Task, task_name: str, use_cache: bool) -> None:
        self.ctl.log('submit', task.name, use_cache, type(task).__name__, task_name)
        self.submitted[task.name] = use_cache
        self.real.submit_task(task, task_name, use_cache)

    def _emit(self, task, res):
        self.yielded.add(task.name)
        if isinstance(res, BaseException):
            self.ctl.log('yield', task.name, 'exc', type(res).__name__)
        else:
            self.ctl.log('yield', task.name, 'ok')

    def wait(self, *, timeout_seconds: Optional[float]) -> Iterator[tuple[Task, ResultMeta | BaseException]]:
        self._check_deadline()
        if all(n in self.yielded for n in self.submitted):
            # the coordinator waits although nothing it submitted is outstanding
            self.empty_waits += 1
            if self.empty_waits > 40:
                raise HarnessTimeout('wait() called repeatedly with nothing in flight')
        if not self.ctl.gated or self.serial:
            self.ctl.log('wait')
            for task, res in self.real.wait(timeout_seconds=timeout_seconds):
                self._emit(task, res)
                yield (task, res)
                self.ctl.log('delivered', task.name)
            return
        # gated: poll with a short timeout; when a polling round yields nothing we may be at rest
        self.ctl.log('wait')
        items = list(self.real.wait(timeout_seconds=getattr(self, 'poll_timeout', 0.02)))
        if items:
            self.ctl.log('batch', [t.name for t, _ in items])
            for task, res in items:
                self._emit(task, res)
                yield (task, res)
                self.ctl.log('delivered', task.name)
            return
        unfinished = [n for n in self.submitted if n not in self.yielded]
        inside = self._inside_run()
        blocked = [n for n in inside if n not in self.released]
        if self.cancelled:
            # draining after an interrupt: the real runner may have lost track of a submission that was interrupted half-way, so
            # the spy's own bookkeeping must not hold any gate closed - everything still blocked is simply let go (unless the
            # case holds the gates for a second interrupt)
            self.ctl.log('rest', sorted(blocked), sorted(unfinished), len(blocked), True)
            if self.ctl.rest_hook is not None:
                self.ctl.rest_hook(self, blocked, unfinished)
            if blocked and not getattr(self, 'hold_gates', False):
                self.ctl.log('release', sorted(blocked), 'drain')
                self._release(sorted(blocked))
            return
        if any(n in self.released for n in unfinished):
            return     # a released node has not been handed back yet: not at rest
        if any(self.submitted[n] for n in unfinished) and len(blocked) < self.max_workers:
            return     # a cache load can still make progress on a free worker: completes on its own, not at rest
        if self.cancelled:
            expected = len(blocked)   # after cancel() queued work must not start; whatever runs is drained
        else:
            expected = min(self.max_workers, len(unfinished))
        # wait (bounded) for the executor to bring the number of running nodes up to what it must be
        t0 = time.monotonic()
        rounds = 0
        while len(blocked) < expected:
            self._check_deadline()
            if rounds >= 10 and time.monotonic() - t0 > 20:
                break
            more = list(self.real.wait(timeout_seconds=0.02))
            rounds += 1
            if more:
                self.ctl.log('batch', [t.name for t, _ in more])
                for task, res in more:
                    self._emit(task, res)
                    yield (task, res)
                    self.ctl.log('delivered', task.name)
                return
            blocked = [n for n in self._inside_run() if n not in self.released]
        self.ctl.log('rest', sorted(blocked), sorted(unfinished), expected, self.cancelled)
        if self.ctl.rest_hook is not None:
            self.ctl.rest_hook(self, blocked, unfinished)
        if blocked and not getattr(self, 'hold_gates', False):
            ch = self.ctl.chooser
            k = 1 + ch.choice(len(blocked))
            pool = sorted(blocked)
            batch = [pool.pop(ch.choice(len(pool))) for _ in range(k)]
            settle = ch.choice(2) == 1
            self.ctl.log('release', batch, 'settle-outside-wait' if settle else 'poll')
            self._release(batch)
            if settle:
                # schedule dimension: the released workers finish and EXIT while the caller is outside wait()
                # (as when the coordinator is busy submitting / checking the cache / updating the monitor)
                self._await_exit(batch)

    def cancel(self) -> None:
        self.ctl.log('cancel')
        self.cancelled = True
        self.real.cancel()

    def stop(self) -> None:
        self.ctl.log('stop')
        self.real.stop()

    def close(self) -> None:
        self.ctl.log('close')
        self.real.close()

    def pending_task_count(self) -> int:
        return self.real.pending_task_count()

    def get_result(self, task: Task) -> TaskResult:
        self.ctl.log('get_result', task.name)
        return self.real.get_result(task)

    def remove_results(self, tasks: Sequence[Task]) -> None:
        tasks = list(tasks)
        self.ctl.log('remove', [t.name for t in tasks])
        self.real.remove_results(tasks)

    def get_task_infos(self):
        return self.real.get_task_infos()


class SpyBackend(RunnerBackend):

    def __init__(self, kind: str, ctl: Control):
        self.kind = kind
        self.ctl = ctl

    def build_runner(self, *, context: LabContext, storage: Storage, max_workers: Optional[int]) -> SpyRunner:
        from labtech.runners import ForkRunnerBackend, SerialRunnerBackend, SpawnRunnerBackend
        if getattr(self, 'real_backend', None) is None:
            # one real backend object per Lab, exactly as Lab.__init__ creates it
            self.real_backend = {'serial': SerialRunnerBackend, 'fork': ForkRunnerBackend, 'spawn': SpawnRunnerBackend}[self.kind]()
        real = self.real_backend.build_runner(context=context, storage=storage, max_workers=max_workers)
        return SpyRunner(real, self.ctl, max_workers, serial=(self.kind == 'serial'))
