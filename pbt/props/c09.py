"""C09 - cached_tasks reconstructs every cached task faithfully."""
from __future__ import annotations

import json
import os
import shutil
import tempfile

from hypothesis import assume
from hypothesis import strategies as st

import labtech

from pbt import core, ptrees
from pbt.universe import vu, vu2

LEVEL = 'exploration'
RULE = ('1-6 top-level tasks whose parameters are generated trees over the supported grammar (NaN excluded), biased to '
        'collections of tasks and enums (the tutorial\'s aggregation pattern), over 12 types incl. NV/NVX (prefix names), vu.TV/'
        'vu2.TV (same qualname in two modules), JV (custom BaseCache format), P2V (PickleCache subclass sharing the pickle__ '
        'prefix) and ZV (cache=None); all are cached into one storage (LocalStorage, or FsspecStorage on the fsspec LocalFileSystem) by a serial run (1 in 8: a fork run with 2 workers), optionally after the same Lab has already listed its empty storage; then cached_tasks(S) is queried - on the Lab that ran or on a new Lab - for '
        'generated type subsets S from a fresh Lab. Oracle: the returned list matches, one-to-one, the cached tasks (top-level and '
        'nested) whose type is in S - each == the original, same cache_key, result_meta == the meta the caching run attached; '
        'nothing for other types/cache formats; run_tasks(returned) returns the stored values with zero run() calls; and '
        'deserialize_task(json(serialize_task(t))) == t. Cases where two differently-built tasks compare == (1 vs True vs 1.0) are '
        'discarded (labtech documents no cache-key guarantee for them). Non-trivial = a task or enum nested inside a list/dict '
        'at depth >= 2, or a storage mixing >= 2 types of which one name prefixes another or two share a name. Distinct = hash '
        'of spec.')
ASSUMPTIONS = ['tasks that compare == but are built from different value types are excluded by construction']

ALL_TYPES = {('PV', 'vu'): vu.PV, ('PW', 'vu'): vu.PW, ('M3', 'vu'): vu.M3, ('ZV', 'vu'): vu.ZV, ('JV', 'vu'): vu.JV,
             ('P2V', 'vu'): vu.P2V, ('NV', 'vu'): vu.NV, ('NVX', 'vu'): vu.NVX, ('TV', 'vu'): vu.TV, ('TV', 'vu2'): vu2.TV,
             ('PV', 'vu2'): vu2.PV, ('PI', 'vu'): vu.PI}
TYPE_KEYS = sorted(ALL_TYPES)


def all_task_trees(tree: dict):
    if tree['k'] == 'task':
        yield tree
        for v in tree['fields'].values():
            yield from all_task_trees(v)
    elif tree['k'] in ('list', 'tuple'):
        for x in tree['items']:
            yield from all_task_trees(x)
    elif tree['k'] in ('dict', 'fdict'):
        for _, v in tree['items']:
            yield from all_task_trees(v)


def marker_free(tree: dict) -> bool:
    """No dict in the tree uses one of the serializer's marker keys (those are C07's subject)."""
    if tree['k'] in ('dict', 'fdict'):
        for kk, v in tree['items']:
            if ptrees.cp2s(kk) in ('_is_task', '_is_enum'):
                return False
            if not marker_free(v):
                return False
        return True
    if tree['k'] in ('list', 'tuple'):
        return all(marker_free(x) for x in tree['items'])
    if tree['k'] == 'task':
        return all(marker_free(v) for v in tree['fields'].values())
    return True


@st.composite
def case(draw):
    coll_bias = st.one_of(
        ptrees.value_tree(max_leaves=8),
        st.lists(ptrees.task_tree_from(ptrees.scalar_tree(), None), min_size=1, max_size=3).map(lambda xs: {'k': 'list', 'items': xs}),
        st.lists(st.tuples(ptrees.key_strategy(True), st.one_of(ptrees.task_tree_from(ptrees.scalar_tree(), None),
                                                                   ptrees.scalar_tree())), min_size=1, max_size=3,
                 unique_by=lambda kv: tuple(kv[0])).map(lambda xs: {'k': 'dict', 'items': [list(x) for x in xs]}),
    )
    tops = draw(st.lists(ptrees.task_tree_from(coll_bias, None), min_size=1, max_size=6))
    queries = draw(st.lists(st.lists(st.sampled_from(TYPE_KEYS), min_size=1, max_size=4, unique=True), min_size=1, max_size=3))
    # history dimension: the same Lab object may already have listed its (then empty) storage before the caching run, the caching
    # run may execute in worker processes, and the queries may go to the Lab that ran or to a new one
    history = {'pre_query': draw(st.booleans()), 'same_lab': draw(st.booleans()), 'backend': 'fork' if draw(st.integers(0, 7)) == 0 else 'serial'}
    return {'tasks': tops, 'queries': [[list(q) for q in qs] for qs in queries], 'storage': draw(st.sampled_from(['local', 'local', 'fsspec_local'])),
            'history': history}


def check(spec: dict, markers_ok: bool = False) -> core.CaseResult:
    tops = spec['tasks']
    # distinct tasks of the case, by canonical form
    subtrees = {}
    for t in tops:
        for s in all_task_trees(t):
            subtrees.setdefault(repr(ptrees.canon(s)), s)
    objs = {c: ptrees.build(s) for c, s in subtrees.items()}
    cs = list(objs)
    for i in range(len(cs)):
        for j in range(i + 1, len(cs)):
            assume(not (objs[cs[i]] == objs[cs[j]]))       # ==-but-differently-built tasks: outside the oracle's domain
    findings: list[core.Finding] = []
    d = tempfile.mkdtemp(prefix='c09-', dir=os.environ.get('VERIF_SCRATCH'))
    old = os.environ.get('VERIF_OBS_DIR')
    os.environ['VERIF_OBS_DIR'] = d
    try:
        store = os.path.join(d, 'store')
        if spec.get('storage', 'local') != 'local':
            from pbt import storages
            store = storages.make(spec['storage'], store)
        hist = spec.get('history') or {'pre_query': False, 'same_lab': False, 'backend': 'serial'}
        lab = labtech.Lab(storage=store, runner_backend=hist['backend'], max_workers=2 if hist['backend'] != 'serial' else None, notebook=False)
        if hist['pre_query']:
            try:
                early = list(lab.cached_tasks(list(ALL_TYPES.values())))
            except Exception as ex:
                return core.CaseResult(findings=[core.Finding(f'C09:cached_tasks-raised-on-an-empty-storage:{type(ex).__name__}', repr(ex)[:300])])
            if early:
                findings.append(core.Finding('C09:foreign-task-returned', f'empty storage lists {early[:2]!r}'))
        top_objs = [ptrees.build(t) for t in tops]
        pre = {}
        stack = list(top_objs)
        while stack:
            t = stack.pop()
            if id(t) in pre:
                continue
            pre[id(t)] = t
            for f in ptrees.FIELDS[type(t).__name__]:
                stack.extend(vu.walk_tasks(getattr(t, f)))
        by_key = {}
        for t in pre.values():
            by_key.setdefault((type(t), t.cache_key), t)
        ks = list(by_key.values())
        for i in range(len(ks)):
            for j in range(i + 1, len(ks)):
                # == tasks with different keys (0.0 vs -0.0, 1 vs True, permuted dict): outside the oracle's domain
                assume(not (ks[i] == ks[j]))
        try:
            first = lab.run_tasks(top_objs, disable_progress=True, disable_top=True)
        except Exception as ex:
            return core.CaseResult(findings=[core.Finding(f'C09:caching-run-raised:{type(ex).__name__}', repr(ex)[:400])])
        # every distinct task in the closure, with the meta the run attached to the caller's objects
        seen_objs = {}
        stack = list(top_objs)
        while stack:
            t = stack.pop()
            c = None
            if id(t) in seen_objs:
                continue
            seen_objs[id(t)] = t
            for f in ptrees.FIELDS[type(t).__name__]:
                stack.extend(vu.walk_tasks(getattr(t, f)))
        originals = {}
        for t in seen_objs.values():
            originals.setdefault((type(t), t.cache_key), t)
        cached_expected = [t for (ty, _), t in originals.items() if ty.__name__ != 'ZV']
        lab2 = lab if hist['same_lab'] else labtech.Lab(storage=store, runner_backend='serial', notebook=False)
        for t in cached_expected:
            if not lab2.is_cached(t):
                findings.append(core.Finding('C09:executed-task-not-cached', repr(t)[:200]))
        n_before = len(vu.read_trace(d))
        for q in spec['queries']:
            types = [ALL_TYPES[tuple(k)] for k in q]
            try:
                got = list(lab2.cached_tasks(types))
            except Exception as ex:
                findings.append(core.Finding(f'C09:cached_tasks-raised:{type(ex).__name__}@{_site(ex)}', repr(ex)[:400]))
                continue
            want = [t for t in cached_expected if type(t) in types]
            unmatched = list(got)
            for w in want:
                hits = [g for g in unmatched if type(g) is type(w) and g.cache_key == w.cache_key]
                if not hits:
                    findings.append(core.Finding('C09:cached-task-not-returned', f'{w!r} (key {w.cache_key}) missing from cached_tasks({[t.__name__ for t in types]})'))
                    continue
                g = hits[0]
                unmatched.remove(g)
                if not (g == w):
                    findings.append(core.Finding('C09:returned-task-not-equal-to-original', f'returned {g!r} != original {w!r}'))
                elif hash(g) != hash(w):
                    findings.append(core.Finding('C09:returned-task-hash-differs', f'{g!r}'))
                if g.result_meta != w.result_meta or g.result_meta is None:
                    findings.append(core.Finding('C09:result_meta-not-the-stored-one', f'{g.result_meta} vs {w.result_meta}'))
                if len(hits) > 1:
                    findings.append(core.Finding('C09:cached-task-returned-more-than-once', f'{w!r} x{len(hits)}'))
            for g in unmatched:
                if any(type(g) is type(w) and g.cache_key == w.cache_key for w in want):
                    continue
                findings.append(core.Finding('C09:returned-task-of-other-type-or-not-cached', f'{g!r} returned for {[t.__name__ for t in types]}'))
            if got and not findings:
                try:
                    again = lab2.run_tasks(got, disable_progress=True, disable_top=True)
                except Exception as ex:
                    findings.append(core.Finding(f'C09:running-returned-tasks-raised:{type(ex).__name__}', repr(ex)[:400]))
                else:
                    for g, v in again.items():
                        w = originals.get((type(g), g.cache_key))
                        if w is not None and w in first and first[w] != v:
                            findings.append(core.Finding('C09:loaded-value-differs-from-stored', f'{g!r}: {v!r} vs {first[w]!r}'))
                    if len(vu.read_trace(d)) != n_before:
                        findings.append(core.Finding('C09:returned-task-was-re-executed', 'run() called when running cached_tasks() output'))
                        n_before = len(vu.read_trace(d))
        # pure serializer round trip
        for t in cached_expected:
            ser = type(t)._lt.cache.serializer
            try:
                back = ser.deserialize_task(json.loads(json.dumps(ser.serialize_task(t))), result_meta=None)
            except Exception as ex:
                findings.append(core.Finding(f'C09:deserialize_task-raised:{type(ex).__name__}', repr(ex)[:300]))
                continue
            if not (back == t) or back.cache_key != t.cache_key:
                findings.append(core.Finding('C09:serializer-round-trip-not-equal', f'{back!r} != {t!r}'))
    finally:
        if old is None:
            os.environ.pop('VERIF_OBS_DIR', None)
        else:
            os.environ['VERIF_OBS_DIR'] = old
        shutil.rmtree(d, ignore_errors=True)
    seen = set()
    findings = [f for f in findings if not (f.signature in seen or seen.add(f.signature))]
    names = {(type(t).__name__) for t in cached_expected}
    mixes = ('NV' in names and 'NVX' in names) or len({type(t) for t in cached_expected if type(t).__name__ in ('TV', 'PV')}) >= 2
    deep = any(ptrees.nested_depth_of(t, ('task', 'enum')) >= 2 for t in tops)
    labels = [f'n_cached={min(len(cached_expected), 8)}', f'history=pre_query:{hist["pre_query"]},same_lab:{hist["same_lab"]},{hist["backend"]}']
    if mixes:
        labels.append('prefix_or_same_named_types_mixed')
    if deep:
        labels.append('task_or_enum_nested_depth>=2')
    if any(type(t).__name__ in ('JV', 'P2V') for t in cached_expected):
        labels.append('other_cache_format_present')
    return core.CaseResult(findings=findings, nontrivial=bool(deep or mixes), labels=tuple(labels),
                           summary={'tasks': [repr(t)[:200] for t in top_objs][:4], 'queries': spec['queries']})


def _site(ex):
    from pbt.oracles import exc_site
    return exc_site(ex)


def plan(tier: str) -> list[dict]:
    q = tier == 'quick'
    return [{'engine': 'cached_tasks', 'n': 120 if q else 5000, 'hashseed': i % 8} for i in range(16)]


def strategy():
    return case()      # dicts using the serializer's marker keys are included since the escaping fix (0e27685)


def run_job(rec: core.Recorder, job: dict, seed: int) -> None:
    core.run_hypothesis(rec, 'cached_tasks', strategy(), check, max_examples=job['n'], seed=seed)


def replay(record: dict) -> core.CaseResult:
    return check(record['case'])
