"""C14 - one Ctrl-C drains the run gracefully; a second one stops it at once."""
from __future__ import annotations

import os
import signal
import time

from hypothesis import strategies as st

from pbt import core, dagprop, dagrun, oracles, specs
from pbt.interrupts import LineInterrupter
from pbt.universe import vu

LEVEL = 'fault_enumeration'
EXHAUSTIVE_CLAIM = False
RULE = ('Engine "serial-exhaustive": for each of a list of small DAGs (3-6 nodes, cacheable and uncached types, cold and partially '
        'warm cache; thorough adds Hypothesis-generated DAGs) a dry run counts the line events executed by the calling thread in '
        'files under labtech/ during run_tasks, then the run is repeated FOR EVERY k with a trace function raising '
        'KeyboardInterrupt at the k-th event (= an interrupt delivered at that line boundary). Engine "serial-pairs": sampled '
        'pairs k1<k2 (second interrupt; under the real backends some executing tasks sit in a catch-all retry loop, so only an uncatchable termination ends them). Engine "controlled": Hypothesis DAGs/schedules under the schedule-owning Runner with the '
        'injector restricted to lab.py (the coordinator\'s interrupt handling) at a drawn k. Engine "fork-sites": under the real fork backend (incl. a DAG with more '
        'ready tasks than workers, so futures queue inside the executor) every distinct line of lab.py / runners/process.py executed by the '
        'PARENT receives an interrupt at its first, middle and last occurrence (located by file:line:occurrence, children untouched); '
        '"fork-lines" adds drawn event indices on generated DAGs, gated and ungated. Engine "signals": gated fork runs; '
        'at a schedule-chosen resting point (j tasks blocked inside run(), q queued) real SIGINT is delivered to the worker '
        'processes and to the caller - once (then gates open) or twice (gates stay closed); fork and (few) spawn runs. Oracle, single interrupt: run_tasks '
        'raises exactly KeyboardInterrupt (never returns, never another exception); nothing is submitted/started after the '
        'interrupt; tasks that were executing finish and are cached; every entry reported cached afterwards loads its correct '
        'value and cached_tasks does not raise; completions processed before the interrupt are cached. Double: still '
        'KeyboardInterrupt, without waiting (gates never open), no task ends, workers are gone. Non-trivial = interrupt strictly '
        'after the first submit and before the last completion is processed. Distinct = hash of (spec, k).')
ASSUMPTIONS = ['an interrupt is modelled at line-boundary granularity (bytecode-granular instants are out of reach)',
               'process-backend injection points depend on OS timing: the replay unit there is the saved spec plus observed log',
               'after a SECOND interrupt cache consistency is not asserted (the statement defers it to the kill-atomicity property)']

LAB_ONLY = ('/labtech/lab.py',)


def N(i, t, deps=None, mode='ok', read=True):
    sh = {'s': None} if not deps else ({'ref': deps[0], 'fresh': False} if len(deps) == 1 else {'list': [{'ref': j, 'fresh': False} for j in deps]})
    return {'id': i, 'type': t, 'name': f'n{i}', 'mode': mode, 'read': read, 'payload': None, 'deps': sh}


def lab(backend, mw=1, bust=False):
    return {'backend': backend, 'max_workers': mw, 'continue_on_failure': True, 'bust_cache': bust, 'storage': 'local', 'displays': False, 'context': {}}


FIXED = [
    {'nodes': [N(0, 'NN'), N(1, 'Z', [0]), N(2, 'N1', [0, 1]), N(3, 'NN', [2])], 'requested': [{'ref': 3, 'fresh': False}], 'pre_cached': []},
    {'nodes': [N(0, 'NN'), N(1, 'J', [0]), N(2, 'N2', [1]), N(3, 'N2', [1]), N(4, 'NN', [2, 3])],
     'requested': [{'ref': 4, 'fresh': False}, {'ref': 0, 'fresh': False}], 'pre_cached': [1]},
    {'nodes': [N(0, 'N1'), N(1, 'N1'), N(2, 'Z', [0, 1], read=False), N(3, 'NN', [2], mode='raise:ValueError'), N(4, 'NN', [0])],
     'requested': [{'ref': 3, 'fresh': False}, {'ref': 4, 'fresh': False}, {'ref': 2, 'fresh': True}], 'pre_cached': [4]},
]


# many simultaneously ready tasks and few workers: futures queue inside the executor and are started from wait()
QUEUED = {'nodes': [N(0, 'NN'), N(1, 'NN'), N(2, 'Z'), N(3, 'NN'), N(4, 'N2', [0, 1, 2, 3])],
          'requested': [{'ref': 4, 'fresh': False}, {'ref': 3, 'fresh': False}], 'pre_cached': []}


def with_lab(spec, backend, cof=True, **kw):
    return {**spec, 'lab': {**lab(backend, **kw), 'continue_on_failure': cof}, 'schedule': spec.get('schedule', [])}


def run_with_interrupts(spec: dict, ats, only=None, gated=False, rest_hook=None, sites=()):
    state = {}

    def around(ctl):
        inj = LineInterrupter(at=ats, only_files=only, sites=sites, on_fire=lambda i, where: ctl.log('interrupt', i, where))
        state['inj'] = inj
        return inj.armed()
    obs = dagrun.execute_case(spec, around_run=around, verify_cache=True, gated=gated, rest_hook=rest_hook)
    return obs, state.get('inj')


def dry_count(spec: dict, only=None) -> int:
    obs, inj = run_with_interrupts(spec, (), only=only)
    return inj.count


def judge(spec: dict, obs, fired: int, double: bool, strict_order: bool = True) -> tuple[list, bool]:
    findings = []
    ex = oracles.expect_for(spec, obs)
    backend = spec['lab']['backend']
    if fired == 0:
        return [], False
    if obs.timeout:
        return [core.Finding('C14:run-did-not-end-after-interrupt', oracles.exc_text(obs.exc))], True
    if obs.outcome == 'return':
        findings.append(core.Finding('C14:returned-normally-after-interrupt', f'returned {[n for n, _ in obs.returned]}'))
    elif type(obs.exc) is not KeyboardInterrupt:
        findings.append(core.Finding(f'C14:raised-{type(obs.exc).__name__}-instead-of-KeyboardInterrupt@{oracles.exc_site(obs.exc)}', oracles.exc_text(obs.exc)))
    # nothing submitted / started after the (first) interrupt
    seen_int = False
    submitted_before, delivered_before = set(), set()
    for ev in obs.events:
        if ev[0] == 'interrupt':
            seen_int = True
        elif ev[0] == 'submit':
            if seen_int and strict_order:
                findings.append(core.Finding('C14:task-submitted-after-interrupt', ev[1]))
            else:
                submitted_before.add(ev[1])
        elif ev[0] == 'delivered' and not seen_int:
            delivered_before.add(ev[1])
    seen_int = False
    running_at_int = set()
    running = set()
    for r in obs.trace:
        if r[0] == 'I' and not seen_int:
            seen_int = True
            running_at_int = set(running)
        elif r[0] == 'S':
            running.add(r[1])
            if seen_int and strict_order and (backend in ('serial', 'controlled') or r[1] not in submitted_before):
                findings.append(core.Finding('C14:task-started-after-interrupt', r[1]))
        elif r[0] in ('E', 'X', 'K'):
            running.discard(r[1])
    by_name = {n['name']: n for n in spec['nodes']}
    if not double:
        # cache consistency
        if obs.cached_tasks_error:
            findings.append(core.Finding('C14:cached_tasks-raises-after-interrupt', obs.cached_tasks_error))
        pre = {}
        if obs.model_before:
            pre = obs.model_before
        for nid, (kind, val) in obs.loaded_after.items():
            if kind != 'ok':
                findings.append(core.Finding('C14:entry-reported-cached-but-cannot-be-loaded-after-interrupt', f'{spec["nodes"][nid]["name"]}: {val}'))
            elif val != ex.value.get(nid) and val != pre.get(nid):
                findings.append(core.Finding('C14:entry-loads-a-wrong-value-after-interrupt', spec['nodes'][nid]['name']))
        # completions processed before the interrupt are cached
        for name in delivered_before:
            nid = by_name[name]['id']
            if ex.status.get(nid) == 'ok' and nid in ex.new_model and not obs.cached_after.get(nid):
                findings.append(core.Finding('C14:completed-task-not-cached-after-interrupt', name))
        # workers that were executing are allowed to finish, and their results are cached
        if backend in ('fork', 'spawn'):
            ended = {r[1] for r in obs.trace if r[0] == 'E'}
            for name in running_at_int:
                nid = by_name[name]['id']
                if ex.status.get(nid) == 'ok':
                    if name not in ended:
                        findings.append(core.Finding('C14:executing-task-did-not-finish-after-single-interrupt', name))
                    elif nid in ex.new_model and not obs.cached_after.get(nid):
                        findings.append(core.Finding('C14:executing-task-result-not-cached-after-single-interrupt', name))
    seen = set()
    findings = [f for f in findings if not (f.signature in seen or seen.add(f.signature))]
    n_submit = sum(1 for e in obs.events if e[0] == 'submit')
    nt = bool(submitted_before) and len(delivered_before) < len([i for i in ex.status])
    return findings, nt


def check_lines(case: dict) -> core.CaseResult:
    spec = case['spec']
    ats = case['at']
    only = LAB_ONLY if case.get('lab_only') else (PARENT_FILES if case.get('files') == 'parent' else None)
    obs, inj = run_with_interrupts(spec, ats, only=only, gated=case.get('gated', False), sites=[tuple(x) for x in case.get('sites', [])])
    fired = len(inj.fired) if inj else 0
    findings, nt = judge(spec, obs, fired, double=len(ats) > 1 and fired > 1)
    where = inj.fired[0][1] if inj and inj.fired else 'not-reached'
    labels = [f'backend={spec["lab"]["backend"]}', f'interrupts={fired}', 'site=' + where.split(' ')[0].split(':')[0]]
    s = obs.summary()
    s['fired'] = inj.fired if inj else []
    return core.CaseResult(findings=findings, nontrivial=nt, labels=tuple(labels), summary=s, key=[spec, ats, case.get('lab_only'), case.get('sites')],
                           inconclusive=False, stop_search=obs.timeout)


# -- real signals at controlled resting points ------------------------------------------------------------------------

def check_signal(case: dict) -> core.CaseResult:
    spec = case['spec']
    target = case['rest_index']
    double = case['double']
    st_ = {'rest': 0, 'sent': 0, 'pids': [], 'blocked_at_signal': None, 't_first': None}

    def hook(spy, blocked, unfinished):
        i = st_['rest']
        st_['rest'] += 1
        send = (i == target) or (double and st_['sent'] == 1)
        if not send:
            return
        pids = []
        for r in vu.read_trace(spy.ctl.obs_dir):
            if r[0] == 'S' and r[1] in blocked:
                pids.append(int(r[2]))
        if st_['sent'] == 0:
            st_['pids'] = pids
            st_['blocked_at_signal'] = sorted(blocked)
            st_['queued_at_signal'] = sorted(set(unfinished) - set(blocked))
            st_['t_first'] = time.monotonic()
        st_['sent'] += 1
        spy.ctl.log('interrupt', st_['sent'], 'SIGINT')
        vu.trace(f'I {st_["sent"]} SIGINT')
        for p in pids:      # Ctrl-C reaches the whole foreground process group: workers first, then the caller
            try:
                os.kill(p, signal.SIGINT)
            except ProcessLookupError:
                pass
        if double and st_['sent'] == 1:
            spy.hold_gates = True     # gates stay closed for ever: run_tasks cannot have waited for the tasks
        signal.raise_signal(signal.SIGINT)

    import contextlib
    import threading
    flag = {'in_run': False}

    if case.get('async'):
        # the signal is delivered by another thread a few ms later, while the caller is inside the real runner's wait()
        # (its helper thread is listening on the result queue), and the blocked tasks are released at the same moment
        def hook(spy, blocked, unfinished):      # noqa: F811
            i = st_['rest']
            st_['rest'] += 1
            if i != target or st_.get('armed'):
                return
            st_['armed'] = True
            st_['pids'] = [int(r[2]) for r in vu.read_trace(spy.ctl.obs_dir) if r[0] == 'S' and r[1] in blocked]
            st_['blocked_at_signal'] = sorted(blocked)
            st_['queued_at_signal'] = sorted(set(unfinished) - set(blocked))

            def deliver():
                time.sleep(case.get('delay_ms', 30) / 1000.0)
                if flag['in_run']:
                    st_['sent'] = 1
                    spy.ctl.log('interrupt', 1, 'SIGINT-async')
                    vu.trace('I 1 SIGINT-async')
                    os.kill(os.getpid(), signal.SIGINT)
            spy.poll_timeout = 0.5      # from here on the spy blocks in the real wait() as long as labtech itself would
            spy._release(list(blocked))
            threading.Thread(target=deliver, daemon=True).start()

    @contextlib.contextmanager
    def around(ctl):
        flag['in_run'] = True
        try:
            yield
        finally:
            flag['in_run'] = False
            if case.get('async'):
                try:
                    time.sleep(0.15)      # absorb a signal that was already on its way when run_tasks ended
                except KeyboardInterrupt:
                    pass

    t0 = time.monotonic()
    obs = dagrun.execute_case(spec, gated=True, rest_hook=hook, verify_cache=True, around_run=around)
    elapsed = time.monotonic() - t0
    if st_['sent'] == 0:
        return core.CaseResult(labels=('signal-not-sent',), summary=obs.summary())
    is_async = bool(case.get('async'))
    if is_async and obs.outcome == 'return':
        # CPython can lose an asynchronously delivered KeyboardInterrupt (e.g. when it is raised inside a finalizer running in the
        # main thread): not attributable to labtech; the synchronous engines decide "never returns normally"
        return core.CaseResult(labels=('signal=async', 'async-interrupt-never-surfaced'), summary=obs.summary(), inconclusive=True)
    findings, nt = judge(spec, obs, st_['sent'], double=double and st_['sent'] > 1, strict_order=not is_async)
    by_name = {n['name']: n for n in spec['nodes']}
    ex = oracles.expect_for(spec, obs)
    started_after = []
    seen = False
    for r in obs.trace:
        if r[0] == 'I':
            seen = True
        elif r[0] == 'S' and seen:
            started_after.append(r[1])
    if started_after and not is_async:
        findings.append(core.Finding('C14:task-started-after-interrupt-at-rest', f'{started_after} (queued at signal: {st_.get("queued_at_signal")})'))
    ended = {r[1] for r in obs.trace if r[0] == 'E'}
    if double and st_['sent'] > 1:
        if any(n in ended for n in st_['blocked_at_signal']):
            findings.append(core.Finding('C14:task-finished-although-terminated-by-second-interrupt', str(sorted(ended))))
        time.sleep(0.2)
        alive = [p for p in st_['pids'] if _alive(p)]
        if alive:
            findings.append(core.Finding('C14:worker-still-alive-after-second-interrupt', str(alive)))
    else:
        for name in st_['blocked_at_signal']:
            nid = by_name[name]['id']
            if ex.status.get(nid) == 'ok' and name not in ended:
                findings.append(core.Finding('C14:executing-task-did-not-finish-after-single-interrupt', name))
        extra = [] if is_async else [by_name_n for by_name_n in (spec['nodes'][i]['name'] for i, c in obs.cached_after.items() if c)
                 if by_name_n not in st_['blocked_at_signal'] and by_name_n not in {e[1] for e in obs.events if e[0] == 'delivered'}
                 and by_name[by_name_n]['id'] not in obs.model_before]
        if extra:
            findings.append(core.Finding('C14:task-cached-although-it-never-ran-before-the-interrupt', str(extra)))
    seen_sig = set()
    findings = [f for f in findings if not (f.signature in seen_sig or seen_sig.add(f.signature))]
    labels = [f'signal={"double" if double else ("async" if case.get("async") else "single")}', f'signal_backend={spec["lab"]["backend"]}', f'blocked_at_signal={len(st_["blocked_at_signal"])}', f'queued_at_signal={min(len(st_.get("queued_at_signal", [])), 3)}']
    if double and any(by_name[n].get('mode') == 'stubborn' for n in st_['blocked_at_signal']):
        labels.append('terminated-task-inside-a-catch-all-retry-loop')
    s = obs.summary()
    s['signal'] = {k: v for k, v in st_.items() if k != 't_first'}
    return core.CaseResult(findings=findings, nontrivial=bool(st_['blocked_at_signal']), labels=tuple(labels), summary=s, stop_search=obs.timeout)


def _alive(pid: int) -> bool:
    try:
        with open(f'/proc/{pid}/stat', 'rb') as f:
            return f.read().decode('ascii', 'replace').rsplit(')', 1)[1].split()[0] != 'Z'
    except (OSError, IndexError):
        return False


# -- plans ------------------------------------------------------------------------------------------------------------

NSHARDS = 6


def serial_points(tier: str) -> list[dict]:
    cases = []
    specs_ = [with_lab(s, 'serial') for s in FIXED] + [with_lab(FIXED[1], 'serial', bust=True)]
    for sp in specs_:
        n = dry_count(sp)
        for k in range(n):
            cases.append({'spec': sp, 'at': [k]})
    return cases


PARENT_FILES = ('/labtech/runners/process.py', '/labtech/lab.py')


def site_cases(tier: str) -> list[dict]:
    """Per-LINE coverage of the parent's interrupt-relevant code under the real fork backend: a dry run lists every distinct
    (file, line) of lab.py / runners/process.py the calling process executes and how often; an interrupt is then injected at
    the first, the middle and the last occurrence of EACH such line (located by code position, so polling-count jitter between
    runs does not move it)."""
    cases = []
    q = tier == 'quick'
    # continue_on_failure=False on an all-succeeding DAG: a completion that gets lost around the interrupt surfaces as LabError('Task died')
    fixed = [with_lab(QUEUED, 'fork', mw=1), with_lab(QUEUED, 'fork', mw=3, cof=False)] if q else [with_lab(QUEUED, 'fork', mw=3, cof=False), with_lab(QUEUED, 'fork', mw=1), with_lab(QUEUED, 'fork', mw=2), with_lab(FIXED[0], 'fork', mw=2), with_lab(FIXED[1], 'fork', mw=3), with_lab(FIXED[2], 'fork', mw=1)]
    for sp in fixed:
        obs, inj = run_with_interrupts(sp, (), only=PARENT_FILES)
        for (f, ln), c in sorted(inj.site_counts.items()):
            occs = sorted({1, (c + 1) // 2, c}) if (not q or f.endswith('process.py')) else [1]
            for occ in occs:
                cases.append({'spec': sp, 'at': [], 'sites': [[f, ln, occ]], 'files': 'parent'})
    return cases


def fork_points(tier: str) -> list[dict]:
    """Sweep over the line boundaries the PARENT executes in lab.py and runners/process.py during real fork runs of the fixed
    DAGs. The number of polling rounds varies between runs, so index k is not a stable location: this is a dense sample, not an
    enumeration."""
    cases = []
    step = 2 if tier == 'quick' else 1
    for sp in [with_lab(FIXED[0], 'fork', mw=2), with_lab(FIXED[1], 'fork', mw=3)] + ([with_lab(FIXED[2], 'fork', mw=1)] if tier != 'quick' else []):
        n = dry_count(sp, only=PARENT_FILES)
        for k in range(0, n, step):
            cases.append({'spec': sp, 'at': [k], 'files': 'parent'})
    return cases


def small_dags(backend: str, gated: bool):
    base = specs.dag_spec(min_nodes=2, max_nodes=6, backends=(backend,), types=['NN', 'N1', 'N2', 'Z', 'J'], fail_modes=['raise:ValueError'],
                          fail_rate=10, noread_rate=20, bust=True, max_workers=(1, 2, 3), req_many=True, wide=(backend != 'serial'))
    return base


@st.composite
def drawn_point(draw, backend: str, lab_only: bool, double: bool, gated: bool = False):
    sp = draw(small_dags(backend, gated))
    frac = draw(st.integers(0, 9999))
    frac2 = draw(st.integers(0, 9999))
    return {'spec': sp, 'frac': [frac, frac2] if double else [frac], 'lab_only': lab_only, 'gated': gated,
            'files': 'parent' if backend in ('fork', 'spawn') else None}


def check_drawn(case: dict) -> core.CaseResult:
    only = LAB_ONLY if case.get('lab_only') else (PARENT_FILES if case.get('files') == 'parent' else None)
    n = dry_count(case['spec'], only=only)
    if n <= 0:
        return core.CaseResult()
    ats = sorted({int(f * n / 10000) for f in case['frac']})
    return check_lines({'spec': case['spec'], 'at': ats, 'lab_only': case.get('lab_only'), 'gated': case.get('gated', False), 'files': case.get('files')})


@st.composite
def signal_case(draw, backend: str = 'fork', only_async: bool = False):
    sp = draw(specs.dag_spec(min_nodes=3, max_nodes=5 if backend == 'spawn' else 8, backends=(backend,), types=['NN', 'N2', 'Z', 'N3'], wide=True,
                             req_many=True, pre_cache=False, bust=False, contexts=False, max_workers=(1, 2, 3),
                             continue_on_failure=(True, False)))
    mode = 'async' if only_async else draw(st.sampled_from(['single', 'double']))
    if only_async:
        sp['lab']['continue_on_failure'] = False
    if mode == 'double':
        # some tasks wait inside a catch-all retry loop: only an uncatchable termination ends them "at once"
        flags = draw(st.lists(st.booleans(), min_size=len(sp['nodes']), max_size=len(sp['nodes'])))
        sp['nodes'] = [{**n, 'mode': 'stubborn'} if (f and n.get('mode', 'ok') == 'ok') else n for n, f in zip(sp['nodes'], flags)]
    return {'spec': sp, 'rest_index': draw(st.integers(0, 3)), 'double': mode == 'double', 'async': mode == 'async',
            'delay_ms': draw(st.sampled_from([2, 5, 10, 30, 120]))}


def plan(tier: str) -> list[dict]:
    q = tier == 'quick'
    jobs = [{'engine': 'serial-exhaustive', 'shard': i, 'hashseed': i % 8} for i in range(NSHARDS)]
    jobs += [{'engine': 'serial-pairs', 'n': 60 if q else 3000, 'hashseed': 1}]
    jobs += [{'engine': 'controlled', 'n': 200 if q else 8000, 'hashseed': i} for i in range(2)]
    jobs += [{'engine': 'fork-lines', 'n': 20 if q else 1600, 'hashseed': i} for i in range(1)]
    jobs += [{'engine': 'fork-sites', 'shard': i, 'hashseed': i} for i in range(6)]
    jobs += [{'engine': 'signals', 'n': 14 if q else 500, 'hashseed': i} for i in range(2)]
    jobs += [{'engine': 'signals-spawn', 'n': 2 if q else 60, 'hashseed': 5}]
    # NOT registered: 'signals-async' (SIGINT delivered by another thread at an arbitrary instant). It caught seeded C14-r2-3, but an
    # asynchronous KeyboardInterrupt can also land in Hypothesis / CPython internals of the harness process (observed: lost
    # interrupts inside finalizers, a SystemError and a segfault of the shard), so it can fail without a labtech defect.
    # Run it by hand with:  python -m pbt.props.c14_async  (see DESIGN.md section 7).
    return jobs


def run_job(rec: core.Recorder, job: dict, seed: int) -> None:
    e = job['engine']
    if e == 'serial-exhaustive':
        cases = serial_points(rec.tier)
        mine = [c for i, c in enumerate(cases) if i % NSHARDS == job['shard']]
        core.run_cases(rec, e, mine, check_lines)
        rec.exhaustive[f'shard{job["shard"]}'] = {'complete': True, 'points': len(mine), 'of_total': len(cases),
                                                  'scope': 'every line boundary executed by the calling thread inside labtech during run_tasks, serial backend, for each listed DAG'}
        if rec.tier == 'thorough':
            core.run_hypothesis(rec, 'serial-generated', drawn_point('serial', False, False), check_drawn, max_examples=1500, seed=seed)
    elif e == 'fork-sites':
        cases = site_cases(rec.tier)
        mine = [c for i, c in enumerate(cases) if i % 6 == job['shard']]
        core.run_cases(rec, e, mine, check_lines)
        if job['shard'] == 0:
            rec.extra['fork_sites_distinct_lines'] = len({tuple(c['sites'][0][:2]) for c in cases})
        if rec.tier == 'thorough':
            sweep = fork_points(rec.tier)
            core.run_cases(rec, 'fork-sweep', [c for i, c in enumerate(sweep) if i % 6 == job['shard']], check_lines)
    elif e == 'serial-pairs':
        core.run_hypothesis(rec, e, drawn_point('serial', False, True), check_drawn, max_examples=job['n'], seed=seed)
    elif e == 'controlled':
        core.run_hypothesis(rec, e, st.one_of(drawn_point('controlled', True, False), drawn_point('controlled', True, True)), check_drawn,
                            max_examples=job['n'], seed=seed)
    elif e == 'fork-lines':
        core.run_hypothesis(rec, e, st.one_of(drawn_point('fork', False, False), drawn_point('fork', False, False, gated=True)), check_drawn,
                            max_examples=job['n'], seed=seed, shrink=False)
    elif e == 'signals-async':
        core.run_hypothesis(rec, e, signal_case('fork', only_async=True), check_signal, max_examples=job['n'], seed=seed, shrink=False)
    elif e == 'signals-spawn':
        core.run_hypothesis(rec, e, signal_case('spawn'), check_signal, max_examples=job['n'], seed=seed, shrink=False)
    else:
        core.run_hypothesis(rec, e, signal_case(), check_signal, max_examples=job['n'], seed=seed, shrink=False)


def replay(record: dict) -> core.CaseResult:
    case = record['case']
    if 'rest_index' in case:
        return check_signal(case)
    if 'frac' in case:
        return check_drawn(case)
    return check_lines(case)
