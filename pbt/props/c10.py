"""C10 - one task's failure never disturbs unrelated tasks."""
from __future__ import annotations

from pbt import core, dagprop, oracles, specs

LEVEL = 'fault_enumeration'
RULE = ('DAGs of 2-9 nodes x generated subsets of failing nodes x failure kind {raise ValueError/KeyError/custom Exception, the exception types labtech itself uses for control flow (IndexError, queue.Empty, StopIteration, TaskNotFound, CacheError, TaskDiedError, LabError, ...), '
        'Exception that cannot be pickled, sys.exit(), custom BaseException, SIGKILL, SIGTERM, os._exit(0) without reporting (process backends and simulated '
        'death under the ControlledRunner)} x strict-reader / non-reading dependents x continue_on_failure in {True, False} x '
        'backends {ControlledRunner, serial, fork, spawn} x progress/monitor displays {off, off, on} x schedules x cache pre-states. Oracle (continue_on_failure=True): '
        'run_tasks returns; returned keys/values == reference over the successful requested nodes in request order; every node '
        'the reference executes has a run() record; is_cached afterwards == reference cache model (exactly the successful '
        'cacheable nodes, nothing for failed nodes or readers of failed nodes). (False): run_tasks raises LabError whose '
        '__cause__ has the class of a failing node\'s own exception (TaskDiedError for kills; TaskError for readers of failed '
        'dependencies; unpicklable exceptions: only "a LabError is raised"), and no run() record appears after the raise. '
        'Non-trivial = a failing node in the closure that has both a dependent and an unrelated sibling. Distinct = hash of '
        '(engine, spec).')
ASSUMPTIONS = ['which exception becomes the cause when several tasks fail is left open (any failing node\'s own exception is accepted)']


def check(spec: dict) -> core.CaseResult:
    obs, ex, gated = dagprop.run_spec(spec)
    findings = oracles.c10_isolation(spec, obs, ex)
    f = specs.features(spec)
    nodes = {n['id']: n for n in spec['nodes']}
    own_fail = [i for i in ex.status if ex.status[i] == 'failed' and not ex.why[i].startswith('dep:')]
    nt = False
    for i in own_fail:
        has_dependent = any(i in ex.deps_in_run.get(p, []) for p in ex.status)
        unrelated = any(ex.status[k] in ('ok', 'loaded') for k in ex.status if k != i)
        if has_dependent and unrelated:
            nt = True
    labels = dagprop.base_labels(spec, f, gated)
    for i in own_fail:
        labels.append('fail=' + ex.why[i])
    if any(w.startswith('dep:') for w in ex.why.values()):
        labels.append('reader_of_failed_dependency')
    if spec['lab'].get('displays'):
        labels.append('displays_on')
    return dagprop.result(obs, findings, nt, labels, hang_is_violation=True, prop='C10')


def judge_obs(case: dict, obs) -> core.CaseResult:
    ex = oracles.expect_for(case, obs)
    failing = any(s == 'failed' for s in ex.status.values())
    return core.CaseResult(findings=oracles.c10_isolation(case, obs, ex), nontrivial=failing and len(case['nodes']) >= 2, labels=('exhaustive-small',), summary=None)


def early_death_spec():
    """A worker that dies at once, followed by many further submissions (each start of a process reaps finished children), with the
    task monitor shown: the dead worker is gone before the monitor has ever looked at it."""
    from hypothesis import strategies as st

    @st.composite
    def gen(draw):
        k = draw(st.integers(8, 14))
        nodes = [{'id': 0, 'type': 'NN', 'name': 'n0', 'mode': draw(st.sampled_from(['kill9', 'exit0', 'kill15'])), 'read': True, 'payload': None, 'deps': {'s': None}}]
        for i in range(1, k):
            nodes.append({'id': i, 'type': draw(st.sampled_from(['NN', 'Z', 'N'])), 'name': f'n{i}', 'mode': 'ok', 'read': True, 'payload': i, 'deps': {'s': None}})
        if draw(st.booleans()):
            nodes.append({'id': k, 'type': 'NN', 'name': f'n{k}', 'mode': 'ok', 'read': draw(st.booleans()), 'payload': None,
                          'deps': {'list': [{'ref': 0, 'fresh': False}, {'ref': 1, 'fresh': False}]}})
        lab = {'backend': 'fork', 'max_workers': len(nodes) + 1, 'continue_on_failure': True, 'bust_cache': False,
               'storage': draw(st.sampled_from(['local', 'none'])), 'displays': True, 'context': {}}
        return {'nodes': nodes, 'requested': [{'ref': i, 'fresh': False} for i in range(len(nodes))], 'lab': lab, 'pre_cached': [], 'schedule': []}
    return gen()


def control_flow_cases() -> list[dict]:
    """Every exception type labtech itself uses for control flow x backend: a task failing with it (a reader and an unrelated sibling
    next to it) is just a failed task."""
    from pbt.universe import vu
    cases = []
    for backend in ('serial', 'fork', 'controlled'):
        for mode in vu.CONTROL_FLOW_MODES:
            for cof in (True, False):
                nodes = [{'id': 0, 'type': 'NN', 'name': 'n0', 'mode': mode, 'read': True, 'payload': None, 'deps': {'s': None}},
                         {'id': 1, 'type': 'N1', 'name': 'n1', 'mode': 'ok', 'read': True, 'payload': None, 'deps': {'ref': 0, 'fresh': False}},
                         {'id': 2, 'type': 'N1', 'name': 'n2', 'mode': 'ok', 'read': True, 'payload': 2, 'deps': {'s': None}},
                         {'id': 3, 'type': 'Z', 'name': 'n3', 'mode': 'ok', 'read': False, 'payload': 3, 'deps': {'ref': 0, 'fresh': False}}]
                cases.append({'nodes': nodes, 'requested': [{'ref': i, 'fresh': False} for i in (1, 0, 2, 3)],
                              'lab': {'backend': backend, 'max_workers': 2, 'continue_on_failure': cof, 'bust_cache': False, 'storage': 'local',
                                      'displays': False, 'context': {}}, 'pre_cached': [], 'schedule': []})
    return cases


def plan(tier: str) -> list[dict]:
    q = tier == 'quick'
    jobs = list(dagprop.std_plan(tier, controlled=(10, 120, 2500), serial=(2, 200, 2500), fork=(3, 20, 500), spawn=(1, 6, 120))) + dagprop.exhaustive_jobs(tier, 4)
    jobs.append({'engine': 'fork+displays+early-death', 'n': 6 if q else 150, 'hashseed': 5})
    jobs.append({'engine': 'control-flow-exceptions', 'hashseed': 6})
    return jobs


def run_job(rec: core.Recorder, job: dict, seed: int) -> None:
    if job['engine'] == 'exhaustive-small':
        dagprop.run_exhaustive_job(rec, job, judge_obs, failing=True, cached=False)
        return
    if job['engine'] == 'control-flow-exceptions':
        core.run_cases(rec, 'control-flow-exceptions', control_flow_cases(), check)
        return
    if job['engine'] == 'fork+displays+early-death':
        core.run_hypothesis(rec, job['engine'], early_death_spec(), check, max_examples=job['n'], seed=seed, shrink=False)
        return
    eng = job['engine']
    from pbt.universe import vu
    # the original kinds keep their weight; the control-flow exception types share one further slot's worth each third draw
    fail = ['raise:ValueError', 'raise:KeyError', 'raise:CustomErr', 'raise:UnpicklableErr', 'exit', 'baseexc', 'raisefrom'] * 4 + vu.CONTROL_FLOW_MODES
    if eng != 'serial':
        fail += ['kill9', 'kill15', 'exit0'] * 4
    else:
        fail += ['raisefrom'] * 8      # only an in-process backend hands the coordinator the original exception object (with its __cause__)
    strat = specs.dag_spec(min_nodes=2, max_nodes=5 if eng == 'spawn' else 9, backends=(eng,), fail_modes=fail, fail_rate=30,
                           noread_rate=30, continue_on_failure=(True, True, False), bust=True)
    from hypothesis import strategies as st
    # the progress bars and the task monitor are part of the run loop (default: shown): a third of the cases runs with them on
    from pbt import dagrun
    strat = st.builds(lambda sp, disp, top: {**sp, 'lab': {**sp['lab'], 'displays': disp == 0, 'top': top}}, strat, st.integers(0, 2), dagrun.top_strategy())
    core.run_hypothesis(rec, eng, strat, check, max_examples=job['n'], seed=seed,
                        shrink=(eng == 'controlled' or rec.tier == 'thorough'))


def replay(record: dict) -> core.CaseResult:
    return check(record['case'])
