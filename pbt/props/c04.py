"""C04 - per-type and global concurrency limits are never exceeded."""
from __future__ import annotations

from pbt import core, dagprop, oracles, specs

LEVEL = 'exploration'
RULE = ('Wide DAGs (3-16 nodes over types with max_parallel 1/2/3/None, many simultaneously ready siblings), max_workers in '
        '{1,2,3,None}, dying and failing tasks, multi-completion batches. ControlledRunner: at every submit_task the '
        'submitted-and-unfinished count of that type must be <= max_parallel (exact, every instant of the coordinator). Real '
        'fork/spawn backends with GATED nodes (every run() blocks on a gate file; the harness releases a schedule-chosen subset '
        'at each resting point): for every prefix of the O_APPEND run() trace, tasks inside run() per type <= max_parallel and in '
        'total <= max_workers (None => os.cpu_count(), exercised with > cpu_count ready tasks). Serial: never two tasks inside '
        'run(), all in the caller pid/thread. Engine after-abort: the same counts on a second run in the same process after run 1 aborted with limited-type tasks in flight. Non-trivial = some limit was binding (reached) at some instant. Distinct = hash of '
        '(engine, spec).')
ASSUMPTIONS = ['S/E/X/K records are written inside run(), so an excess in any trace prefix is a real simultaneous excess; saving after E only under-counts',
               'process-backend schedules are generator-owned (gates) but sampled']


def check_gated(spec: dict, gated: bool) -> core.CaseResult:
    obs, ex, g = dagprop.run_spec(spec, gated=gated)
    findings, binding = oracles.c04_limits(spec, obs, ex, dagprop.CPU)
    f = specs.features(spec)
    labels = dagprop.base_labels(spec, f, g)
    if binding:
        labels.append('limit_binding')
    return dagprop.result(obs, findings, binding, labels, prop='C04')


def check(spec: dict) -> core.CaseResult:
    if 'second' in spec:
        return check_after_abort(spec)
    return check_gated(spec, spec.get('gated', False))


def check_after_abort(spec: dict) -> core.CaseResult:
    """Run 1 aborts with limited-type tasks in flight; the limits must hold for run 2 in the same process as well (bookkeeping left
    behind by the aborted run must neither raise nor lower what run 2 may start)."""
    from pbt import dagrun
    second = spec['second']
    obs = dagrun.execute_case(spec, second=second)
    ex1 = oracles.expect_for(spec, obs)
    findings, binding = oracles.c04_limits(spec, obs, ex1, dagprop.CPU)
    if obs.second is not None and obs.second.outcome is not None:
        spec2 = {**spec, 'requested': [{'ref': i, 'fresh': False} for i in second['requested']], 'lab': {**spec['lab'], 'continue_on_failure': True}}
        ex2 = oracles.expect_second(spec, obs, ex1, second)
        f2, b2 = oracles.c04_limits(spec2, obs.second, ex2, dagprop.CPU)
        binding = binding or b2
        findings += [core.Finding(f.signature.replace('C04:', 'C04:run-after-aborted-run:'), f.detail) for f in f2]
    labels = [f'backend={spec["lab"]["backend"]}', 'after-abort', f'run1={obs.outcome}']
    if binding:
        labels.append('limit_binding')
    return dagprop.result(obs, findings, binding and obs.second is not None, labels, prop='C04')


def cpu_default_spec():
    """max_workers left at its default (the number of CPUs) with more simultaneously ready tasks than that."""
    from hypothesis import strategies as st

    @st.composite
    def gen(draw):
        n = dagprop.CPU + draw(st.integers(1, 5))
        nodes = [{'id': i, 'type': draw(st.sampled_from(['NN', 'Z', 'NN', 'N'])), 'name': f'n{i}', 'mode': 'ok', 'read': True, 'payload': i, 'deps': {'s': None}}
                 for i in range(n)]
        lab = {'backend': 'fork', 'max_workers': None, 'continue_on_failure': True, 'bust_cache': False,
               'storage': draw(st.sampled_from(['none', 'local'])), 'displays': False, 'context': {}}
        return {'nodes': nodes, 'requested': [{'ref': i, 'fresh': False} for i in range(n)], 'lab': lab, 'pre_cached': [],
                'schedule': draw(st.lists(st.integers(0, 7), max_size=10)), 'gated': True}
    return gen()


def plan(tier: str) -> list[dict]:
    q = tier == 'quick'
    jobs = list(dagprop.std_plan(tier, controlled=(10, 150, 2500), serial=(1, 40, 800), fork=(0, 0, 0), spawn=(0, 0, 0),
                            gated_fork=(4, 12, 400), gated_spawn=(1, 3, 60)))
    jobs += [{'engine': 'executor-machine', 'n': 12 if q else 400, 'steps': 14 if q else 30, 'hashseed': i} for i in range(2)]
    jobs += [{'engine': 'fork+gated:cpu-default', 'n': 2 if q else 30, 'hashseed': 7}]
    jobs += [{'engine': 'after-abort:controlled', 'n': 80 if q else 2500, 'hashseed': 5}, {'engine': 'after-abort:fork', 'n': 6 if q else 200, 'hashseed': 6}]
    return jobs


def strategy(eng: str, gated: bool, seed: int):
    from hypothesis import strategies as st
    big = (seed % 4 == 0) and eng in ('fork',)
    s = specs.dag_spec(min_nodes=3, max_nodes=(20 if big else (6 if eng == 'spawn' else 12)), backends=(eng,),
                       types=['N1', 'N2', 'N3', 'NN', 'Z1', 'Z2', 'CtxSubKid'] if not big else ['NN', 'N3'],
                       fail_modes=['raise:ValueError'] + ([] if eng == 'serial' else ['kill9']), fail_rate=10,
                       wide=True, req_many=True, pre_cache=(eng == 'controlled'), bust=False, contexts=False,
                       max_workers=(None,) if big else (1, 2, 3, None), noread_rate=30)
    return s.map(lambda sp: {**sp, 'gated': gated})


def run_job(rec: core.Recorder, job: dict, seed: int) -> None:
    if job['engine'] == 'executor-machine':
        from pbt import execmachine
        execmachine.run_machines(rec, 'executor-machine', 'C04:', job['n'], job['steps'], seed)
        return
    if job['engine'] == 'fork+gated:cpu-default':
        core.run_hypothesis(rec, job['engine'], cpu_default_spec(), check, max_examples=job['n'], seed=seed, shrink=False)
        return
    if job['engine'].startswith('after-abort:'):
        from pbt.props import c05
        b = job['engine'].split(':')[1]
        core.run_hypothesis(rec, job['engine'], c05.abort_spec(b), check_after_abort, max_examples=job['n'], seed=seed, shrink=(b == 'controlled'))
        return
    eng, gated = dagprop.backend_of(job['engine'])
    core.run_hypothesis(rec, job['engine'], strategy(eng, gated, seed), check, max_examples=job['n'], seed=seed,
                        shrink=(eng == 'controlled' or rec.tier == 'thorough'))


def replay(record: dict) -> core.CaseResult:
    return check(record['case'])
