"""C16 - each task runs in the environment its backend and context promise."""
from __future__ import annotations

import json
import os
import shutil
import tempfile
import threading

from hypothesis import strategies as st

import labtech

from pbt import core, dagprop, dagrun, oracles, refmodel, resultcase, specs
from pbt.universe import vu

LEVEL = 'exploration'
RULE = ('Engine "probe": DAGs (1-7 nodes) of probing tasks - default filter_context, a filter_context selecting the context keys '
        'named by a parameter, and a deliberately non-idempotent wrapping filter - x backends {serial, fork, spawn; fork and spawn Labs alternating inside one process} x max_workers x generated contexts (nested values, empty, None; passed complete, or as a dict that is filled in after Lab() and before run_tasks); the caller '
        'mutates a module global and appends to a module-level list of the task module after import and before run_tasks. Each '
        'run() reports pid, parent pid, native thread id, the module global, the list, and its value embeds a digest of '
        'self.context. Oracle: value == reference evaluator with the reference-filtered context (context clause, every backend); '
        'serial: pid and thread == the caller\'s; fork: pid != caller, all task pids pairwise distinct, parent pid == caller, '
        'mutated global and list VISIBLE; spawn: same pid rules, mutated global and list NOT visible (fresh interpreter). Engine "scale": the same oracle on '
        '24-80 independent tasks queued behind 1-3 workers. Engine '
        '"ctx-independence" (metamorphic): the same tasks (some of whose results embed the running task object itself) run under two different contexts into two stores must produce identical '
        'key sets, identical result files byte for byte and identical metadata.json modulo the two timing fields. Non-trivial = '
        '>= 2 nodes with different filter parameters and backend != serial (probe), >= 2 tasks (ctx). Distinct = hash of spec. A third of the probe cases are forced re-executions '
        '(bust_cache=True) over a store in which every cacheable task already has an entry.')
ASSUMPTIONS = ['a parent-mutated module global observed inside run() distinguishes inherited memory (fork) from a fresh interpreter (spawn)']


def check_probe(spec: dict) -> core.CaseResult:
    vu.PROBE_GLOBAL = 'mutated-by-caller'
    vu.PROBE_LIST[:] = ['x']
    obs = dagrun.execute_case(spec)
    ex = oracles.expect_for(spec, obs)
    findings = []
    backend = spec['lab']['backend']
    me, my_tid = os.getpid(), threading.get_native_id()
    if obs.timeout:
        return dagprop.result(obs, [], False, [f'backend={backend}'], prop='C16')
    if obs.outcome != 'return':
        findings.append(core.Finding(f'C16:run-raised:{type(obs.exc).__name__}@{oracles.exc_site(obs.exc)}', oracles.exc_text(obs.exc)))
    else:
        nodes = {n['name']: n for n in spec['nodes']}
        want = {nodes_['name']: ex.value[nodes_['id']] for nodes_ in spec['nodes'] if nodes_['id'] in ex.value}
        pids = []
        for name, v in obs.returned:
            base, probe = v[:-1], v[-1]
            # dependency digests (index 4) cover the dependencies' probe tuples (pids...), which the model cannot predict
            if base[:4] + base[5:] != want[name][:4] + want[name][5:]:
                what = 'context' if base[:3] == want[name][:3] and base[3] != want[name][3] else 'value'
                findings.append(core.Finding(f'C16:{what}-inside-run-differs-from-filter_context(lab.context)', f'{name}: {base!r} vs {want[name]!r}'))
            pid, ppid, tid, glob, lst, pname = probe
            pids.append(pid)
            if backend == 'serial':
                if pid != me or tid != my_tid:
                    findings.append(core.Finding('C16:serial-task-not-in-caller-process-and-thread', f'{name}: pid {pid} tid {tid}, caller {me}/{my_tid}'))
            else:
                if pid == me:
                    findings.append(core.Finding(f'C16:{backend}-task-ran-in-the-caller-process', name))
                if ppid != me:
                    findings.append(core.Finding(f'C16:{backend}-task-process-is-not-a-child-of-the-caller', f'{name}: ppid {ppid} != {me}'))
                if backend == 'fork' and (glob != 'mutated-by-caller' or tuple(lst) != ('x',)):
                    findings.append(core.Finding('C16:fork-child-does-not-see-the-callers-memory', f'{name}: global={glob!r} list={lst!r}'))
                if backend == 'spawn' and (glob != 'import-time' or tuple(lst) != ()):
                    findings.append(core.Finding('C16:spawn-child-shares-the-callers-memory', f'{name}: global={glob!r} list={lst!r}'))
        if backend != 'serial' and len(set(pids)) != len(pids):
            findings.append(core.Finding(f'C16:{backend}-tasks-shared-a-process', str(pids)))
    f = specs.features(spec)
    filt = {json.dumps([n['type'], n['payload']]) for n in spec['nodes'] if n['type'].startswith('Ctx')}
    nt = backend != 'serial' and len(filt) >= 2
    seen = set()
    findings = [x for x in findings if not (x.signature in seen or seen.add(x.signature))]
    return dagprop.result(obs, findings, nt, [f'backend={backend}', f'max_workers={spec["lab"]["max_workers"]}', f'filters={min(len(filt), 3)}', f'bust_over_cached={bool(spec["lab"].get("bust_cache"))}',
                                                    f'lab_context={"empty" if not (spec["lab"].get("context") or not spec["lab"].get("no_nonce")) else "non-empty"}'], prop='C16')


def snapshot_store(path: str) -> dict:
    out = {}
    for key in sorted(os.listdir(path)):
        kp = os.path.join(path, key)
        if not os.path.isdir(kp):
            continue
        files = {}
        for fn in sorted(os.listdir(kp)):
            data = open(os.path.join(kp, fn), 'rb').read()
            if fn == 'metadata.json':
                m = json.loads(data)
                m.pop('start_timestamp', None)
                m.pop('duration_seconds', None)
                files[fn] = m
            else:
                files[fn] = data
        out[key] = files
    return out


def check_ctx(spec: dict) -> core.CaseResult:
    findings = []
    d = tempfile.mkdtemp(prefix='c16-', dir=os.environ.get('VERIF_SCRATCH'))
    try:
        snaps, keys = [], []
        for i, ctx in enumerate(spec['contexts']):
            tasks = resultcase.build_tasks(spec)
            store = os.path.join(d, f'store{i}')
            lab = labtech.Lab(storage=store, runner_backend=spec['backend'], context=ctx, notebook=False, max_workers=2)
            lab.run_tasks(tasks, disable_progress=True, disable_top=True)
            keys.append([t.cache_key for t in tasks])
            snaps.append(snapshot_store(store))
        if keys[0] != keys[1]:
            findings.append(core.Finding('C16:context-influences-cache-keys', ''))
        if sorted(snaps[0]) != sorted(snaps[1]):
            findings.append(core.Finding('C16:context-influences-the-set-of-stored-entries', f'{sorted(snaps[0])} vs {sorted(snaps[1])}'))
        else:
            for k in snaps[0]:
                if snaps[0][k] != snaps[1][k]:
                    diff = [fn for fn in snaps[0][k] if snaps[0][k].get(fn) != snaps[1][k].get(fn)]
                    findings.append(core.Finding('C16:context-influences-stored-entry-contents', f'{k}: {diff}'))
                    break
                blob = json.dumps({fn: (v if isinstance(v, dict) else v.decode('latin1')) for fn, v in snaps[0][k].items()})
                for ctx in spec['contexts']:
                    for cv in ctx.values():
                        if isinstance(cv, str) and len(cv) >= 8 and cv in blob:
                            findings.append(core.Finding('C16:context-value-found-in-stored-entry', cv))
    finally:
        shutil.rmtree(d, ignore_errors=True)
    return core.CaseResult(findings=findings, nontrivial=len(spec['nodes']) >= 2, labels=(f'ctx:{spec["backend"]}',),
                           summary={'n': len(spec['nodes']), 'contexts': spec['contexts']})


CTX_VALUES = st.one_of(st.integers(0, 5), st.sampled_from(['ctxvalue-aaaaaaaa', 'ctxvalue-bbbbbbbb']), st.lists(st.integers(0, 3), max_size=3),
                       st.dictionaries(st.sampled_from(['p', 'q']), st.integers(0, 3), max_size=2))


def probe_spec(backend: str):
    def fix(sp, ctx, late=False, bare=0, bust_over_cached=False):
        sp['lab']['late_context'] = late
        if bare >= 2:
            # exactly the generated context (the harness adds nothing); in half of these cases it is empty / None
            sp['lab']['no_nonce'] = True
            if bare >= 3:
                ctx = {}
                sp['lab']['context_none'] = bare == 4
        for n in sp['nodes']:
            n['mode'] = 'probe'
        sp['requested'] = [{'ref': n['id'], 'fresh': False} for n in sp['nodes']]
        sp['lab']['context'] = ctx
        # a forced re-execution over existing entries (bust_cache=True with every cacheable task already stored): run() executes again,
        # so it must get the same context and process environment as in a first run
        sp['pre_cached'] = [n['id'] for n in sp['nodes']] if bust_over_cached else []
        sp['lab']['bust_cache'] = bool(bust_over_cached)
        return sp
    base = specs.dag_spec(min_nodes=1, max_nodes=4 if backend == 'spawn' else 7, backends=(backend,), types=['NN', 'N2', 'CtxSub', 'CtxSub2', 'Z', 'CtxWrap', 'CtxSubMix', 'CtxSubKid'],
                          pre_cache=False, bust=False, allow_fresh_same_parent=True, wide=(backend != 'serial'),
                          max_workers=(1, 1, 2) if backend == 'spawn' else (1, 2, 3, None))
    return st.builds(fix, base, st.dictionaries(st.sampled_from(['a', 'b', 'c', 'zz', 'other']), CTX_VALUES, max_size=4), st.booleans(), st.integers(0, 4),
                     st.sampled_from([True, False, False]))


def scale_spec(backend: str):
    """Many more tasks than workers (a long executor backlog): every task must still get a process of its own."""
    @st.composite
    def gen(draw):
        n = draw(st.integers(24, 30)) if backend == 'spawn' else draw(st.integers(24, 80))
        nodes = [{'id': i, 'type': draw(st.sampled_from(['NN', 'Z', 'NN', 'N3'])), 'name': f'n{i}', 'mode': 'probe', 'read': True, 'payload': None,
                  'deps': {'s': None}} for i in range(n)]
        lab = {'backend': backend, 'max_workers': 1 if backend == 'spawn' else draw(st.sampled_from([1, 1, 2, 3])), 'continue_on_failure': True,
               'bust_cache': False, 'storage': draw(st.sampled_from(['local', 'none'])), 'displays': False, 'context': {}}
        return {'nodes': nodes, 'requested': [{'ref': i, 'fresh': False} for i in range(n)], 'lab': lab, 'pre_cached': [], 'schedule': []}
    return gen()


def _with_self_embedding(nodes, flags):
    out = []
    for n, f in zip(nodes, flags + [False] * len(nodes)):
        out.append({**n, 'type': 'RS'} if (f and n['type'] == 'RV') else n)
    return out


def ctx_spec(backends):
    return st.builds(lambda nodes, c1, c2, b: {'nodes': nodes, 'contexts': [c1, c2], 'backend': b},
                     st.builds(_with_self_embedding, resultcase.node_sets(max_big=70_000), st.lists(st.booleans(), min_size=1, max_size=5)), st.dictionaries(st.sampled_from(['a', 'b', 'c']), CTX_VALUES, max_size=3),
                     st.dictionaries(st.sampled_from(['a', 'b', 'c', 'd']), CTX_VALUES, min_size=1, max_size=3), st.sampled_from(backends))


def plan(tier: str) -> list[dict]:
    q = tier == 'quick'
    jobs = [{'engine': 'probe:serial', 'n': 60 if q else 2000, 'hashseed': 0}]
    jobs += [{'engine': 'probe:fork', 'n': 25 if q else 700, 'hashseed': 1 + i} for i in range(4)]
    jobs += [{'engine': 'probe:spawn', 'n': 4 if q else 60, 'hashseed': 5 + i} for i in range(4)]
    # fork and spawn Labs alternating inside ONE process (state shared between runner classes would leak from one to the other)
    jobs += [{'engine': 'probe:mixed', 'n': 8 if q else 150, 'hashseed': 6 + i} for i in range(2)]
    # scale: 24-80 independent tasks on 1-3 workers (per-task process identity must not depend on the length of the backlog)
    jobs += [{'engine': 'scale:fork', 'n': 4 if q else 80, 'hashseed': 4}, {'engine': 'scale:spawn', 'n': 1 if q else 8, 'hashseed': 5}]
    jobs += [{'engine': 'ctx', 'backends': ['serial'], 'n': 40 if q else 1500, 'hashseed': 2},
             {'engine': 'ctx', 'backends': ['fork'], 'n': 12 if q else 400, 'hashseed': 3}]
    return jobs


def run_job(rec: core.Recorder, job: dict, seed: int) -> None:
    e = job['engine']
    if e == 'probe:mixed':
        core.run_hypothesis(rec, e, st.one_of(probe_spec('fork'), probe_spec('spawn'), probe_spec('fork')), check_probe, max_examples=job['n'], seed=seed,
                            shrink=False)
        return
    if e.startswith('scale:'):
        core.run_hypothesis(rec, e, scale_spec(e.split(':')[1]), check_probe, max_examples=job['n'], seed=seed, shrink=False)
        return
    if e.startswith('probe:'):
        b = e.split(':')[1]
        core.run_hypothesis(rec, e, probe_spec(b), check_probe, max_examples=job['n'], seed=seed, shrink=(b == 'serial' or rec.tier == 'thorough'))
    else:
        core.run_hypothesis(rec, 'ctx:' + '+'.join(job['backends']), ctx_spec(job['backends']), check_ctx, max_examples=job['n'], seed=seed,
                            shrink=(job['backends'] == ['serial']))


def replay(record: dict) -> core.CaseResult:
    case = record['case']
    return check_ctx(case) if 'contexts' in case else check_probe(case)
