"""C15 - tasks are immutable values with consistent equality, hashing and copying."""
from __future__ import annotations

import copy
import dataclasses
import math
import os
import pickle
import shutil
import tempfile
from enum import Enum

from frozendict import frozendict
from hypothesis import strategies as st

import labtech
from labtech.exceptions import TaskError
from labtech.tasks import find_tasks_in_param, get_direct_dependencies

from pbt import core, ptrees
from pbt.universe import vu

LEVEL = 'exploration'
RULE = ('Supported parameter trees (C07 grammar plus list/tuple/dict subclasses and NaN) and UNSUPPORTED trees (a supported tree with '
        'one unsupported leaf - bytes, set, frozenset, complex, object, Decimal, bytearray, range, a class, a function - or one '
        'non-str dict key planted at a generated depth) over 12 task types incl. one with post_init and one with defaults; pickle '
        'protocols 0..HIGHEST, copy.deepcopy as an extra. Oracle, supported: construction succeeds; every field equals the normal '
        'form (tuples/frozendicts at every depth, scalars unchanged in value AND type); assignment raises FrozenInstanceError; hash '
        'works; two builds from one spec are == with equal hash and != the same fields in another type; t2 = loads(dumps(t, p)): '
        't2 == t, equal hash, equal cache_key, get_direct_dependencies equal as ordered lists, post_init-derived attribute present '
        'and equal, _results_map is None, no context; serialize_task and find_tasks_in_param accept what construction accepts; and '
        'after a real run (results map, context and result_meta set on the objects) the pickle of the task and of its dependency '
        'contains neither the result marker nor the context marker. Unsupported: construction raises TaskError exactly. '
        'Non-trivial = tree depth >= 2, or an unsupported leaf below depth 1, or a type with post_init. Distinct = hash of spec. Engine "main-script": task types defined in __main__ '
        'of a user script under the spawn backend - the copy in the worker has the caller\'s cache_key.')
ASSUMPTIONS = ['equality clauses are skipped for trees containing NaN (nan != nan)']

RESULT_MARKER = 'RESULT-MARKER-9c1e77'
CTX_MARKER = 'CTX-MARKER-5d20aa'


def normal(tree: dict):
    k = tree['k']
    if k in ('list', 'tuple', 'tuplesub'):
        return tuple(normal(x) for x in tree['items'])
    if k in ('dict', 'fdict', 'dictsub'):
        return frozendict({ptrees.cp2s(kk): normal(v) for kk, v in tree['items']})
    if k == 'task':
        return ptrees.build(tree)
    return ptrees.build(tree)


def same(a, b, path='') -> str:
    """'' if a is exactly the normal form b; else a description of the first difference."""
    if labtech.is_task(b):
        if type(a) is not type(b):
            return f'{path}: type {type(a).__name__} != {type(b).__name__}'
        for f in dataclasses.fields(b):
            d = same(getattr(a, f.name), getattr(b, f.name), f'{path}.{f.name}')
            if d:
                return d
        return ''
    if type(a) is not type(b):
        return f'{path}: type {type(a).__name__} is not {type(b).__name__}'
    if isinstance(b, tuple):
        if len(a) != len(b):
            return f'{path}: length'
        for i, (x, y) in enumerate(zip(a, b)):
            d = same(x, y, f'{path}[{i}]')
            if d:
                return d
        return ''
    if isinstance(b, frozendict):
        if list(a.keys()) != list(b.keys()):
            return f'{path}: keys {list(a.keys())} != {list(b.keys())}'
        for k in b:
            d = same(a[k], b[k], f'{path}[{k!r}]')
            if d:
                return d
        return ''
    if isinstance(b, float):
        if math.isnan(b):
            return '' if math.isnan(a) else f'{path}: not nan'
        return '' if (a == b and math.copysign(1, a) == math.copysign(1, b)) else f'{path}: {a!r} != {b!r}'
    if isinstance(b, Enum):
        return '' if a is b else f'{path}: enum {a!r} is not {b!r}'
    return '' if a == b else f'{path}: {a!r} != {b!r}'


def has_nan(tree: dict) -> bool:
    if tree['k'] == 'float':
        return tree['v'] == 'nan'
    if tree['k'] in ('list', 'tuple', 'tuplesub'):
        return any(has_nan(x) for x in tree['items'])
    if tree['k'] in ('dict', 'fdict', 'dictsub', 'badkeydict'):
        return any(has_nan(v) for _, v in tree['items'])
    if tree['k'] == 'task':
        return any(has_nan(v) for v in tree['fields'].values())
    return False


def has_pi(tree: dict) -> bool:
    return ptrees.contains(tree, ()) or (tree['k'] == 'task' and tree['type'] == 'PI') or any(
        has_pi(v) for v in (tree.get('fields', {}).values() if tree['k'] == 'task' else
                            (tree.get('items', []) if tree['k'] in ('list', 'tuple', 'tuplesub') else
                             [v for _, v in tree.get('items', [])] if tree['k'] in ('dict', 'fdict', 'dictsub') else [])))


def check_supported(tree: dict) -> core.CaseResult:
    findings: list[core.Finding] = []
    nan = has_nan(tree)
    try:
        t = ptrees.build(tree)
    except Exception as ex:
        return core.CaseResult(findings=[core.Finding(f'C15:supported-value-rejected:{type(ex).__name__}', repr(ex)[:300])],
                               nontrivial=True, summary={'tree': tree})
    cls = type(t)
    # normal form
    for f in dataclasses.fields(t):
        want = normal(tree['fields'][f.name]) if f.name in tree['fields'] else None
        d = same(getattr(t, f.name), want, f.name)
        if d:
            findings.append(core.Finding('C15:field-not-in-normal-form', d))
    # frozen
    try:
        setattr(t, dataclasses.fields(t)[0].name, 1)
        findings.append(core.Finding('C15:assignment-did-not-raise', ''))
    except dataclasses.FrozenInstanceError:
        pass
    except Exception as ex:
        findings.append(core.Finding(f'C15:assignment-raised-{type(ex).__name__}', repr(ex)))
    # hash / equality
    try:
        h = hash(t)
    except Exception as ex:
        findings.append(core.Finding(f'C15:not-hashable:{type(ex).__name__}', repr(ex)[:200]))
        h = None
    t_again = ptrees.build(tree)
    t_respelt = ptrees.build(ptrees.respell(tree))
    if not nan:
        if not (t == t_again) or (h is not None and hash(t_again) != h):
            findings.append(core.Finding('C15:two-builds-not-equal-or-hash-differs', repr(t)[:200]))
        if not (t == t_respelt) or (h is not None and hash(t_respelt) != h):
            findings.append(core.Finding('C15:list/dict-respelling-not-equal', repr(t)[:200]))
    # unequal to other types with the same fields
    if tree['type'] in ('PV', 'PW', 'NV', 'NVX', 'TV', 'JV', 'P2V', 'ZV'):
        for other in ('PV', 'PW', 'NV', 'NVX', 'TV', 'ZV'):
            for mod in ('vu', 'vu2'):
                oc = ptrees.MODS[mod].PARAM_TYPES.get(other)
                if oc is None or oc is cls:
                    continue
                o = oc(**{f.name: getattr(t, f.name) for f in dataclasses.fields(t)})
                if o == t:
                    findings.append(core.Finding('C15:equal-to-task-of-another-type', f'{t!r} == {o!r}'))
    # copies
    deps = list(get_direct_dependencies(t))
    for proto in list(range(0, pickle.HIGHEST_PROTOCOL + 1)) + ['deepcopy']:
        try:
            t2 = copy.deepcopy(t) if proto == 'deepcopy' else pickle.loads(pickle.dumps(t, protocol=proto))
        except Exception as ex:
            findings.append(core.Finding(f'C15:copy-raised:{type(ex).__name__}', f'{proto}: {ex!r}'[:300]))
            continue
        tag = 'deepcopy' if proto == 'deepcopy' else 'pickle'
        if not nan:
            if not (t2 == t):
                findings.append(core.Finding(f'C15:{tag}-copy-not-equal', f'{proto}: {t2!r} != {t!r}'[:400]))
            elif h is not None and hash(t2) != h:
                findings.append(core.Finding(f'C15:{tag}-copy-hash-differs', str(proto)))
            if list(get_direct_dependencies(t2)) != deps:
                findings.append(core.Finding(f'C15:{tag}-copy-finds-other-dependencies', str(proto)))
        for f in dataclasses.fields(t):
            d = same(getattr(t2, f.name), getattr(t, f.name), f.name)
            if d:
                findings.append(core.Finding(f'C15:{tag}-copy-field-not-in-normal-form', d))
        if t2.cache_key != t.cache_key:
            findings.append(core.Finding(f'C15:{tag}-copy-cache_key-differs', f'{t2.cache_key} != {t.cache_key}'))
        if getattr(t2, '_results_map', 'MISSING') is not None:
            findings.append(core.Finding(f'C15:{tag}-copy-carries-results-map', repr(getattr(t2, '_results_map', 'MISSING'))[:100]))
        if getattr(t2, 'context', None) is not None:
            findings.append(core.Finding(f'C15:{tag}-copy-carries-context', ''))
        if tree['type'] == 'PI':
            if not hasattr(t2, 'derived'):
                findings.append(core.Finding(f'C15:{tag}-copy-lost-post_init-attribute', f'{proto}'))
            elif not nan and t2.derived != t.derived:
                findings.append(core.Finding(f'C15:{tag}-copy-post_init-attribute-differs', f'{t2.derived!r} != {t.derived!r}'))
        for dep2 in vu.walk_tasks(tuple(getattr(t2, f.name) for f in dataclasses.fields(t2))):
            if type(dep2).__name__ == 'PI' and not hasattr(dep2, 'derived'):
                findings.append(core.Finding(f'C15:{tag}-copy-lost-post_init-attribute', f'{proto} (nested)'))
    # the three walkers agree
    try:
        if hasattr(cls._lt.cache, 'serializer'):
            cls._lt.cache.serializer.serialize_task(t)
        for f in dataclasses.fields(t):
            find_tasks_in_param(getattr(t, f.name))
    except Exception as ex:
        findings.append(core.Finding(f'C15:accepted-at-construction-but-rejected-by-walker:{type(ex).__name__}', repr(ex)[:300]))
    seen = set()
    findings = [f for f in findings if not (f.signature in seen or seen.add(f.signature))]
    nt = ptrees.depth(tree) >= 3 or tree['type'] == 'PI' or ptrees.contains({'k': 'list', 'items': list(tree['fields'].values())}, ('task',)) and ptrees.depth(tree) >= 2
    labels = [f'type={tree["type"]}', f'depth={min(ptrees.depth(tree), 5)}'] + (['nan'] if nan else [])
    return core.CaseResult(findings=findings, nontrivial=bool(nt), labels=tuple(labels), summary={'task': repr(t)[:400]})


def check_unsupported(spec: dict) -> core.CaseResult:
    tree = spec['tree']
    findings = []
    try:
        t = ptrees.build(tree)
    except TaskError:
        pass
    except Exception as ex:
        findings.append(core.Finding(f'C15:unsupported-value-raised-{type(ex).__name__}-not-TaskError', repr(ex)[:300]))
    else:
        findings.append(core.Finding(f'C15:unsupported-value-accepted:{spec["bad"]}', repr(t)[:300]))
    nt = spec['bad_depth'] >= 2
    return core.CaseResult(findings=findings, nontrivial=nt, labels=(f'bad={spec["bad"]}', f'bad_depth={min(spec["bad_depth"], 5)}'),
                           summary={'bad': spec['bad'], 'depth': spec['bad_depth']})


# -- equal tasks built from equal-but-differently-spelt parameters hash equal ------------------------------------

def eq_variant(tree: dict, picks: list) -> dict:
    """A tree whose VALUE is equal under Python's == but spelt differently: dict items in another insertion order,
    1 <-> 1.0 <-> True <-> IntEnum member, 'a' <-> StrEnum member."""
    it = iter(picks + [0] * 1000)

    def go(t):
        k = t['k']
        p = next(it)
        if k in ('dict', 'fdict') and len(t['items']) >= 2:
            items = [[kk, go(v)] for kk, v in t['items']]
            if p % 2:
                items = items[::-1]
            else:
                items = items[1:] + items[:1]
            return {'k': k, 'items': items}
        if k in ('dict', 'fdict'):
            return {'k': k, 'items': [[kk, go(v)] for kk, v in t['items']]}
        if k in ('list', 'tuple'):
            return {'k': k, 'items': [go(x) for x in t['items']]}
        if k == 'task':
            return {**t, 'fields': {f: go(v) for f, v in t['fields'].items()}}
        if k == 'int' and abs(int(t['v'])) < 2**53:
            i = int(t['v'])
            opts = [t, {'k': 'float', 'v': float(i).hex()}]
            if i in (0, 1):
                opts.append({'k': 'bool', 'v': bool(i)})
            if i in (0, 1, 2):
                opts.append({'k': 'enum', 'cls': 'Num', 'name': {0: 'ZERO', 1: 'ONE', 2: 'TWO'}[i], 'mod': 'vu'})
            return opts[p % len(opts)]
        if k == 'bool':
            return [t, {'k': 'int', 'v': str(int(t['v']))}, {'k': 'float', 'v': float(t['v']).hex()}][p % 3]
        if k == 'str' and ptrees.cp2s(t['v']) in ('a', 'RED', ''):
            name = {'a': 'A', 'RED': 'RED', '': 'EMPTY'}[ptrees.cp2s(t['v'])]
            return [t, {'k': 'enum', 'cls': 'Sx', 'name': name, 'mod': 'vu'}][p % 2]
        return t
    return go(tree)


def check_eq_variants(spec: dict) -> core.CaseResult:
    findings = []
    a = ptrees.build(spec['tree'])
    vt = eq_variant(spec['tree'], spec['picks'])
    b = ptrees.build(vt)
    same_spelling = core.canon_json(vt) == core.canon_json(spec['tree'])
    equal = (a == b)
    if equal:
        try:
            if hash(a) != hash(b):
                findings.append(core.Finding('C15:equal-tasks-hash-differently', f'{a!r} == {b!r} but hashes differ'))
            elif len({a, b}) != 1 or b not in {a: 1}:
                findings.append(core.Finding('C15:equal-tasks-do-not-collapse-in-a-set', f'{a!r} / {b!r}'))
        except Exception as ex:
            findings.append(core.Finding(f'C15:hash-raised:{type(ex).__name__}', repr(ex)[:200]))
        t2 = pickle.loads(pickle.dumps(b))
        if not (t2 == a) or hash(t2) != hash(a):
            findings.append(core.Finding('C15:pickled-copy-of-an-equal-task-not-equal-or-hash-differs', f'{t2!r} vs {a!r}'))
    return core.CaseResult(findings=findings, nontrivial=bool(equal and not same_spelling),
                           labels=('eq_variant:' + ('equal' if equal else 'not-equal') + (':same-spelling' if same_spelling else ':respelt'),),
                           summary={'a': repr(a)[:300], 'b': repr(b)[:300]})


# -- copies that cross into an interpreter with another hash seed ---------------------------------------------------------

def check_xproc_batch(spec: dict) -> core.CaseResult:
    import json
    import subprocess
    import sys
    trees = [t for t in spec['trees'] if not has_nan(t)]
    if not trees:
        return core.CaseResult()
    d = tempfile.mkdtemp(prefix='c15x-', dir=os.environ.get('VERIF_SCRATCH'))
    findings = []
    try:
        batch = []
        for t in trees:
            obj = ptrees.build(t)
            hash(obj)       # a task that has been hashed (and possibly cached its hash) before being copied
            batch.append({'tree': t, 'blobs': {p: pickle.dumps(obj, protocol=p) for p in (0, 2, pickle.HIGHEST_PROTOCOL)}})
        fin, fout = os.path.join(d, 'in.pickle'), os.path.join(d, 'out.json')
        with open(fin, 'wb') as f:
            pickle.dump(batch, f)
        env = dict(os.environ)
        env['PYTHONHASHSEED'] = str(spec['hashseed'])
        with open(os.path.join(d, 'log'), 'wb') as log:
            p = subprocess.Popen([sys.executable, '-m', 'pbt.c15_child', fin, fout], env=env, stdout=log, stderr=log, stdin=subprocess.DEVNULL,
                                 start_new_session=True)
            try:
                p.wait(timeout=120)
            except subprocess.TimeoutExpired:
                p.kill()
        if not os.path.exists(fout):
            return core.CaseResult(inconclusive=True, summary={'log': open(os.path.join(d, 'log'), 'rb').read()[-400:].decode('utf-8', 'replace')})
        res = json.load(open(fout))
        for t, probs in zip(trees, res['problems']):
            for pr in probs:
                what = pr.split(': ', 1)[1] if ': ' in pr else pr
                findings.append(core.Finding('C15:copy-in-another-interpreter:' + what.split(' raised')[0].replace(' ', '-')[:80], f'{pr}; task {ptrees.build(t)!r}'[:400]))
    finally:
        shutil.rmtree(d, ignore_errors=True)
    seen = set()
    findings = [f for f in findings if not (f.signature in seen or seen.add(f.signature))]
    return core.CaseResult(findings=findings, nontrivial=any(ptrees.contains(t, ('str', 'enum')) for t in trees),
                           labels=('xproc_pickle', f'hashseed={spec["hashseed"] % 4}'), summary={'n_trees': len(trees)},
                           key=[core.case_hash(t) for t in trees[:8]])


# -- after-run pickles carry no results / context ------------------------------------------------------

def _rm_run(self):
    for d in vu.walk_tasks(self.v):
        d.result
    return [RESULT_MARKER, repr(self.v)[:50], (self.context or {}).get('m')]


RM = vu._param_type('RM', {'v': object}, extra_ns={'run': _rm_run})
vu.RM = RM      # module-level so that pickling by reference works
vu.PARAM_TYPES['RM'] = RM
ptrees.FIELDS['RM'] = ['v']


def check_after_run(spec: dict) -> core.CaseResult:
    findings = []
    backend = spec['backend']
    inner_tree = spec['inner']
    d = tempfile.mkdtemp(prefix='c15-', dir=os.environ.get('VERIF_SCRATCH'))
    try:
        dep = RM(v=ptrees.build(inner_tree))
        top = RM(v=[dep, {'k': dep}])
        lab = labtech.Lab(storage=os.path.join(d, 's') if spec['cached'] else None, runner_backend=backend, notebook=False,
                          context={'m': CTX_MARKER})
        res = lab.run_tasks([top, dep], disable_progress=True, disable_top=True)
        if RESULT_MARKER not in repr(res):
            findings.append(core.Finding('C15:harness-run-did-not-produce-marker', repr(res)[:200]))
        for name, obj in (('top', top), ('dependency', dep), ('nested-instance', top.v[0])):
            for proto in (0, 2, pickle.HIGHEST_PROTOCOL):
                blob = pickle.dumps(obj, protocol=proto)
                if RESULT_MARKER.encode() in blob:
                    findings.append(core.Finding('C15:pickle-after-run-carries-results', f'{name} protocol {proto}'))
                if CTX_MARKER.encode() in blob:
                    findings.append(core.Finding('C15:pickle-after-run-carries-context', f'{name} protocol {proto}'))
                t2 = pickle.loads(blob)
                if getattr(t2, '_results_map', None) is not None or getattr(t2, 'context', None) is not None:
                    findings.append(core.Finding('C15:copy-after-run-has-results-map-or-context', name))
                if not (t2 == obj) or t2.cache_key != obj.cache_key:
                    findings.append(core.Finding('C15:copy-after-run-not-equal', name))
    finally:
        shutil.rmtree(d, ignore_errors=True)
    seen = set()
    findings = [f for f in findings if not (f.signature in seen or seen.add(f.signature))]
    return core.CaseResult(findings=findings, nontrivial=True, labels=(f'after_run:{backend}',), summary={'backend': backend})


# -- strategies --------------------------------------------------------------------------------------

BAD = ['bytes', 'set', 'complex', 'object', 'decimal', 'bytearray', 'frozenset', 'range', 'type', 'func']
BAD_KEYS = ['int', 'none', 'tuple', 'tuple0', 'tuple2', 'float', 'bool', 'bytes', 'enum', 'frozenset']


@st.composite
def unsupported(draw):
    t = draw(ptrees.task_tree(max_leaves=8, subclasses=True))
    paths = [(p, n) for p, n in ptrees._paths(t) if p]      # not the top-level task itself
    path, node = draw(st.sampled_from(paths))
    if draw(st.booleans()):
        what = draw(st.sampled_from(BAD))
        new = {'k': 'bad', 'what': what}
        bad = what
    else:
        key = draw(st.sampled_from(BAD_KEYS))
        new = {'k': 'badkeydict', 'key': key, 'items': [], 'value': {'k': 'none'}}
        if draw(st.booleans()):
            new['items'] = [[ptrees.s2cp('ok'), {'k': 'int', 'v': '1'}]]
        bad = f'key:{key}'
    t2 = ptrees._replace(t, path, new)
    return {'tree': t2, 'bad': bad, 'bad_depth': len(path)}


def plan(tier: str) -> list[dict]:
    q = tier == 'quick'
    jobs = [{'engine': 'supported', 'n': 300 if q else 15000, 'hashseed': i % 8} for i in range(9)]
    jobs += [{'engine': 'unsupported', 'n': 400 if q else 15000, 'hashseed': i % 8} for i in range(5)]
    jobs += [{'engine': 'after_run', 'n': 25 if q else 600, 'hashseed': i} for i in range(2)]
    jobs += [{'engine': 'xproc_pickle', 'n': 8 if q else 150, 'hashseed': i} for i in range(2)]
    jobs += [{'engine': 'eq_variants', 'n': 400 if q else 15000, 'hashseed': i} for i in range(2)]
    jobs += [{'engine': 'main-script', 'n': 3 if q else 40, 'hashseed': 2}]
    return jobs


def check_main_script(case: dict) -> core.CaseResult:
    """The pickled copy that reaches a spawn worker has the same cache_key as the original, also for task types defined in the __main__
    of a user script (re-imported there as __mp_main__). Runs pbt/mainscript.py (shared with C06) as a script with the spawn backend
    and compares the key each worker saw on its copy with the key of the caller's original."""
    from . import c06
    r = c06.check_main_script({**case, 'b1': 'spawn'})
    r.findings = [core.Finding('C15:main-script:pickled-copy-in-spawn-worker-has-a-different-cache_key', f.detail) for f in r.findings
                  if 'cache_key-in-worker-differs' in f.signature]
    return r


def run_job(rec: core.Recorder, job: dict, seed: int) -> None:
    e = job['engine']
    if e == 'main-script':
        from . import c06
        core.run_hypothesis(rec, e, c06.main_script_case(), check_main_script, max_examples=job['n'], seed=seed, shrink=False)
    elif e == 'supported':
        core.run_hypothesis(rec, e, ptrees.task_tree(nan=True, subclasses=True, max_leaves=10), check_supported, max_examples=job['n'], seed=seed)
    elif e == 'xproc_pickle':
        strat = st.builds(lambda ts, hs: {'trees': ts, 'hashseed': hs}, st.lists(ptrees.task_tree(max_leaves=8, markers=False), min_size=10, max_size=30),
                          st.integers(1, 4000))
        core.run_hypothesis(rec, e, strat, check_xproc_batch, max_examples=job['n'], seed=seed, shrink=False)
    elif e == 'eq_variants':
        strat = st.builds(lambda t, picks: {'tree': t, 'picks': picks},
                          ptrees.task_tree(max_leaves=10, markers=False), st.lists(st.integers(0, 5), min_size=4, max_size=30))
        core.run_hypothesis(rec, e, strat, check_eq_variants, max_examples=job['n'], seed=seed)
    elif e == 'unsupported':
        core.run_hypothesis(rec, e, unsupported(), check_unsupported, max_examples=job['n'], seed=seed)
    else:
        strat = st.builds(lambda b, c, inner: {'backend': b, 'cached': c, 'inner': inner}, st.sampled_from(['serial', 'serial', 'fork']),
                          st.booleans(), ptrees.value_tree(max_leaves=4, task_types=[('PV', 'vu'), ('M3', 'vu')]))
        core.run_hypothesis(rec, e, strat, check_after_run, max_examples=job['n'], seed=seed, shrink=False)


def replay(record: dict) -> core.CaseResult:
    case = record['case']
    if 'leaves' in case:
        return check_main_script(case)
    if 'trees' in case:
        return check_xproc_batch(case)
    if 'picks' in case:
        return check_eq_variants(case)
    if 'backend' in case:
        return check_after_run(case)
    if 'bad' in case:
        return check_unsupported(case)
    return check_supported(case)
