"""C07 - cache keys are deterministic and distinguish every distinct task."""
from __future__ import annotations

import json
import os
import pickle
import tempfile

from hypothesis import strategies as st

from pbt import core, ptrees

LEVEL = 'exploration'
RULE = ('Hypothesis generates parameter trees over the supported grammar (None/bool/int incl. > 2^64/float incl. inf, -0.0, '
        'subnormals/str incl. empty, non-BMP, lone surrogates, module.Class-shaped/enum members of Enum, IntEnum, StrEnum incl. '
        'aliases and same-named enums in two modules/tuples, lists, string-keyed dicts and frozendicts whose key alphabet includes '
        'the serializer\'s own marker keys/nested tasks to depth 4) carried by 12 task types incl. same-named types in two modules '
        'and prefix-named types. Engine "pairs": (t, t\') with one typed edit at a random depth (value change; type change '
        '1<->True<->1.0<->"1"<->IntEnum; ()<->{}<->None; enum member <-> value/name/look-alike dict; nested task <-> look-alike '
        'dict; field swap; type swap to a twin). Engine "bulk": sets of 120 trees grouped by key. Oracle: (1) determinism - key == '
        'key of a second build from the same spec == key after pickle round trip (every protocol; stored and recomputed) == key of '
        'the list<->tuple / dict<->frozendict re-spelling == key of deserialize_task(json(serialize_task(t))) == key of cache.load_task() on '
        'the entry cache.save() wrote for t == key computed in '
        'the other shard processes, which run with different PYTHONHASHSEED; (2) injectivity - equal keys imply same type and '
        'equal canonical parameter trees (sha1 collisions ignored); (3) LocalStorage.exists(key) does not raise - for a plain storage directory, one below a symlinked directory, and one that is itself a symlink. Non-trivial = '
        'tree depth >= 2 containing a nested task or enum, or a pair differing only in a value\'s type. Distinct = hash of spec. Engine "main-script": a user script whose task types '
        'live in __main__ run with the spawn backend - the key seen on every worker\'s copy and the key directories must equal the caller\'s keys.')
ASSUMPTIONS = ['sha1 collisions ignored', '+0.0 vs -0.0 and dict-key order are not asserted in either direction',
               'NaN parameters are excluded from this property (nan != nan makes "same value" undefined)']


def key_facts(tree: dict, storage) -> tuple[list[core.Finding], str]:
    out = []
    t = ptrees.build(tree)
    key = t.cache_key
    t_again = ptrees.build(tree)
    if t_again.cache_key != key:
        out.append(core.Finding('C07:key-differs-between-two-builds', f'{key} vs {t_again.cache_key}'))
    r = ptrees.build(ptrees.respell(tree))
    if r.cache_key != key:
        out.append(core.Finding('C07:key-changes-under-list/dict-respelling', f'{key} vs {r.cache_key}'))
    cache = type(t)._lt.cache
    for proto in range(0, pickle.HIGHEST_PROTOCOL + 1):
        t2 = pickle.loads(pickle.dumps(t, protocol=proto))
        if t2.cache_key != key or cache.cache_key(t2) != key:
            out.append(core.Finding('C07:key-changes-across-pickling', f'protocol {proto}: {key} -> {t2.cache_key} / {cache.cache_key(t2)}'))
            break
    if hasattr(cache, 'serializer'):
        ser = cache.serializer
        doc = json.loads(json.dumps(ser.serialize_task(t)))
        try:
            t3 = ser.deserialize_task(doc, result_meta=None)
        except Exception as ex:
            out.append(core.Finding(f'C07:reconstruction-from-metadata-raised:{type(ex).__name__}', repr(ex)[:300]))
        else:
            if t3.cache_key != key:
                out.append(core.Finding('C07:key-changes-after-reconstruction-from-metadata', f'{key} -> {t3.cache_key}'))
        # the same reconstruction through the real entry: what save() wrote is what cached_tasks() rebuilds the task from
        if key != 'null' and hasattr(cache, 'load_task'):
            import datetime

            from labtech.types import ResultMeta, TaskResult
            st0 = storage.all[0]
            try:
                cache.save(st0, t, TaskResult(value=0, meta=ResultMeta(start=datetime.datetime(2020, 1, 2, 3, 4, 5), duration=datetime.timedelta(seconds=1))))
                try:
                    t4 = cache.load_task(st0, type(t), key)
                finally:
                    cache.delete(st0, t)
            except Exception as ex:
                out.append(core.Finding(f'C07:reconstruction-from-a-saved-entry-raised:{type(ex).__name__}', repr(ex)[:300]))
            else:
                if t4.cache_key != key:
                    out.append(core.Finding('C07:key-changes-after-reconstruction-from-a-saved-entry', f'{key} -> {t4.cache_key}'))
    if key != 'null':
        try:
            storage.exists(key)
        except Exception as ex:
            out.append(core.Finding(f'C07:key-rejected-by-LocalStorage:{type(ex).__name__}', f'{key}: {ex}'))
    return out, key


_STORAGE = None


class _Storages:
    """LocalStorage objects over the same kind of directory reached in three ways: plain, through a symlinked parent directory,
    and as a symlink itself."""

    def __init__(self):
        from labtech.storage import LocalStorage
        d = tempfile.mkdtemp(prefix='c07-', dir=os.environ.get('VERIF_SCRATCH'))
        os.makedirs(os.path.join(d, 'real', 'inner'))
        os.symlink('real', os.path.join(d, 'link'))
        os.makedirs(os.path.join(d, 'plain'))
        os.symlink(os.path.join(d, 'real', 'inner'), os.path.join(d, 'direct_link'))
        self.all = [LocalStorage(os.path.join(d, 'plain')), LocalStorage(os.path.join(d, 'link', 'inner')),
                    LocalStorage(os.path.join(d, 'direct_link'))]

    def exists(self, key):
        for st_ in self.all:
            st_.exists(key)


def storage():
    global _STORAGE
    if _STORAGE is None:
        _STORAGE = _Storages()
    return _STORAGE


def cacheable(tree) -> bool:
    return tree['type'] != 'ZV'


def check_pair(pair: dict) -> core.CaseResult:
    a, b = pair['a'], pair['b']
    fa, ka = key_facts(a, storage())
    fb, kb = key_facts(b, storage())
    findings = fa + fb
    ca, cb = ptrees.canon(a), ptrees.canon(b)
    if ca != cb and ka == kb and ka != 'null':
        findings.append(core.Finding(f'C07:distinct-tasks-share-a-key:{pair["edit_kind"]}',
                                     f'{ptrees.build(a)!r} and {ptrees.build(b)!r} both have key {ka}'))
    type_only = pair['edit_kind'] in ('int->bool', 'bool->int', 'int->float', 'float->int', 'bool->float', 'int->enum', 'enum->int',
                                      'enum->str', 'int->str', 'bool->str', 'float->str', 'none->bool', 'none->int', 'none->str',
                                      'none->tuple', 'none->dict', 'list->none', 'tuple->none', 'dict->tuple', 'fdict->tuple',
                                      'enum->dict', 'task->dict', 'task->task', 'list->dict', 'tuple->dict', 'enum->enum')
    deep = ptrees.depth(a) >= 2 and ptrees.contains(a, ('enum',)) or ptrees.nested_depth_of(a, ('task',)) >= 2
    labels = [f'edit={pair["edit_kind"]}', f'edit_depth={min(pair["edit_depth"], 4)}', f'type={a["type"]}']
    return core.CaseResult(findings=findings, nontrivial=bool(type_only or deep), labels=tuple(labels),
                           summary={'key_a': ka, 'key_b': kb, 'a': repr(ptrees.build(a))[:300], 'b': repr(ptrees.build(b))[:300]})


def check_bulk(trees: list) -> core.CaseResult:
    findings = []
    groups: dict[str, list] = {}
    for t in trees:
        f, k = key_facts(t, storage())
        findings += f
        if k != 'null':
            groups.setdefault(k, []).append(t)
    collisions = 0
    for k, ts in groups.items():
        cs = {repr(ptrees.canon(t)) for t in ts}
        if len(cs) > 1:
            collisions += 1
            two = [t for t in ts][:2]
            findings.append(core.Finding('C07:distinct-tasks-share-a-key:bulk',
                                         f'{len(cs)} distinct tasks share key {k}: e.g. {[repr(ptrees.build(t))[:200] for t in two]}'))
    seen = set()
    findings = [f for f in findings if not (f.signature in seen or seen.add(f.signature))]
    return core.CaseResult(findings=findings, nontrivial=len(trees) >= 20, labels=(f'bulk_groups>=2:{sum(1 for g in groups.values() if len(g) > 1) > 0}',),
                           summary={'n': len(trees), 'distinct_keys': len(groups)}, key=[core.case_hash(t) for t in trees[:10]])


def xproc_keys(rec: core.Recorder, seed: int, n: int) -> None:
    """Keys of a fixed, seed-derived list of trees; every shard (different PYTHONHASHSEED) computes the same list and the
    orchestrator compares the keys."""
    import hypothesis
    from hypothesis import given
    collected: list = []

    @hypothesis.seed(core.derive_seed(seed, 'xproc'))
    @core.hyp_settings(n, shrink=False)
    @given(ptrees.task_tree(max_leaves=10))
    def collect(t):
        collected.append(t)
    collect()
    for t in collected:
        h = core.case_hash(t)
        key = ptrees.build(t).cache_key
        rec.xproc[h] = {'value': key, 'case': t, 'signature': 'C07:key-differs-across-processes',
                        'hashseed': os.environ.get('PYTHONHASHSEED')}
        res = core.CaseResult(nontrivial=ptrees.depth(t) >= 2 and ptrees.contains(t, ('enum', 'task')), labels=('xproc',),
                              summary={'key': key})
        rec.case('xproc', t, res)


def plan(tier: str) -> list[dict]:
    q = tier == 'quick'
    jobs = []
    for i in range(10):
        jobs.append({'engine': 'pairs', 'n': 400 if q else 15000, 'hashseed': i % 8, 'xseed': True})
    for i in range(6):
        jobs.append({'engine': 'bulk', 'n': 6 if q else 200, 'hashseed': (3 + i) % 8, 'xseed': True})
    jobs.append({'engine': 'main-script', 'n': 3 if q else 40, 'hashseed': 1})
    return jobs


def check_main_script(case: dict) -> core.CaseResult:
    """"The same key in every process, also after pickling" for task types defined in the __main__ of a user script: spawn workers
    re-import that script as __mp_main__, so a key that is recomputed there instead of travelling with the task comes out different.
    Runs pbt/mainscript.py (shared with C06) as a script with the spawn backend; the oracle here is about keys only: the key every
    worker saw for a task == the key the caller sees == the directory the entry was written to."""
    from . import c06
    r = c06.check_main_script({**case, 'b1': 'spawn'})
    r.findings = [core.Finding(f.signature.replace('C06:', 'C07:'), f.detail) for f in r.findings
                  if 'cache_key-in-worker-differs' in f.signature or 'key-directories-differ' in f.signature]
    return r


def run_job(rec: core.Recorder, job: dict, seed: int) -> None:
    # the cross-process list depends on VERIF_SEED only (rec.seed), not on the shard
    xproc_keys(rec, rec.seed, 40 if rec.tier == 'quick' else 600)
    if job['engine'] == 'main-script':
        from . import c06
        core.run_hypothesis(rec, 'main-script', c06.main_script_case(), check_main_script, max_examples=job['n'], seed=seed, shrink=False)
    elif job['engine'] == 'pairs':
        core.run_hypothesis(rec, 'pairs', ptrees.mutated_pair(max_leaves=10), check_pair, max_examples=job['n'], seed=seed)
    else:
        core.run_hypothesis(rec, 'bulk', st.lists(ptrees.task_tree(max_leaves=8), min_size=20, max_size=120), check_bulk,
                            max_examples=job['n'], seed=seed)


def replay(record: dict) -> core.CaseResult:
    case = record['case']
    if record.get('engine') == 'cross-process':
        f, k = key_facts(case, storage())
        return core.CaseResult(findings=f, summary={'key': k})
    if isinstance(case, dict) and 'leaves' in case:
        return check_main_script(case)
    if isinstance(case, dict) and 'a' in case:
        return check_pair(case)
    return check_bulk(case)
