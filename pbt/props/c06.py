"""C06 - a cache hit returns the result and metadata stored for that very task."""
from __future__ import annotations

import json
import os
import pickle
import shutil
import subprocess
import sys
import tempfile
from datetime import datetime, timedelta

from hypothesis import strategies as st

import labtech
from labtech.types import ResultMeta, TaskResult

from pbt import core, resultcase
from pbt.universe import vu

LEVEL = 'exploration'
RULE = ('1-5 tasks (PickleCache and a custom two-file BaseCache format, dependency edges) whose run() value is built from a '
        'generated result-shape grammar (nested dict/list/tuple/set, bytes, ints > 2^64, floats, text, blobs of 70-300 KB that span '
        'several pickle frames) and embeds the task name and dependency digests, so all stored values are distinct. Engine '
        '"rerun": first run with backend b1, second run with backend b2 (b1,b2 in {serial, fork, spawn}) in the same Lab, a new '
        'Lab (LocalStorage or FsspecStorage on the local filesystem), or a FRESH INTERPRETER started with a different PYTHONHASHSEED; in some cases the Lab is given a relative storage path and '
        'the caller changes its working directory between the runs. Oracle: after run 1 is_cached(t) for every task and '
        'the set of key directories == {cache_key(t)}; run 2 returns values equal to run 1\'s with zero run() records, and every '
        'requested instance\'s result_meta == run 1\'s (start, duration) AND == the (start, duration) read from the entry\'s metadata.json without '
        'labtech; in a third of the cases the same objects are re-executed with bust_cache=True in between (every entry and its meta is replaced; '
        'the later hit must carry the replaced meta). Engine "roundtrip": Cache.save / load_result_with_meta '
        'directly with generated ResultMeta (naive datetimes at microsecond resolution, durations 0..10 days). Non-trivial = >= 2 '
        'cacheable tasks with different values AND a second run in a different process or backend. Distinct = hash of spec. In a quarter of the rerun cases a session whose storage cannot be read '
        'comes between the two runs (entries of executed tasks must survive its failed loads).')
ASSUMPTIONS = ['values are compared with ==; stored values are distinct by construction so a foreign entry is visible']


def check_rerun(spec: dict) -> core.CaseResult:
    findings: list[core.Finding] = []
    cwd0 = os.getcwd()
    d = tempfile.mkdtemp(prefix='c06-', dir=os.environ.get('VERIF_SCRATCH'))
    obs1 = os.path.join(d, 'obs1')
    obs2 = os.path.join(d, 'obs2')
    os.makedirs(obs1)
    os.makedirs(obs2)
    store = os.path.join(d, 'store')
    old = os.environ.get('VERIF_OBS_DIR')
    summary = {}
    try:
        tasks = resultcase.build_tasks(spec)
        requested = [tasks[i] for i in spec['requested']]
        os.environ['VERIF_OBS_DIR'] = obs1
        cwd0 = os.getcwd()
        relative = bool(spec.get('relative_storage')) and spec['second'] != 'fresh_interpreter'
        if relative:
            # the Lab is given a RELATIVE storage path; the caller changes its working directory between the two runs
            os.chdir(d)
            os.makedirs(os.path.join(d, 'elsewhere'), exist_ok=True)
        fsspec = spec.get('storage_kind') == 'fsspec_local' and not relative and spec['second'] != 'fresh_interpreter'
        store_obj = store
        if fsspec:
            # the same entries through the other storage provider (FsspecStorage on the local filesystem)
            from pbt import storages
            store_obj = storages.make('fsspec_local', store)
        lab1 = labtech.Lab(storage='store' if relative else store_obj, runner_backend=spec['b1'], notebook=False, max_workers=2)
        try:
            res1 = lab1.run_tasks(requested, disable_progress=True, disable_top=True)
        except Exception as ex:
            return core.CaseResult(findings=[core.Finding(f'C06:first-run-raised:{type(ex).__name__}', repr(ex)[:300])])
        idx1 = {id(t): i for i, t in enumerate(tasks)}
        meta1 = {idx1[id(t)]: t.result_meta for t in requested}
        closure = set()
        stack = list(requested)
        while stack:
            t = stack.pop()
            if id(t) in closure:
                continue
            closure.add(id(t))
            stack.extend(vu.walk_tasks(t.deps))
        ran = [t for t in tasks if id(t) in closure and type(t).__name__ != 'RZ']
        for t in ran:
            if not lab1.is_cached(t):
                findings.append(core.Finding('C06:executed-task-not-reported-cached', t.name))
        keys = sorted(k for k in os.listdir(store) if os.path.isdir(os.path.join(store, k)))
        want_keys = sorted(t.cache_key for t in ran)
        if keys != want_keys:
            findings.append(core.Finding('C06:key-directories-differ-from-the-executed-tasks-keys', f'{keys} vs {want_keys}'))
        # ---- optional history step: the same objects are executed again with bust_cache=True, which replaces every entry (and its
        # recorded start/duration); the later cache hit must then carry the REPLACED entry's meta
        mode = spec['second']
        if spec.get('rewrite') and mode != 'fresh_interpreter' and not relative:
            os.environ['VERIF_OBS_DIR'] = os.path.join(d, 'obs1')
            try:
                res1 = lab1.run_tasks(requested, bust_cache=True, disable_progress=True, disable_top=True)
            except Exception as ex:
                return core.CaseResult(findings=[core.Finding(f'C06:bust_cache-run-raised:{type(ex).__name__}', repr(ex)[:300])])
            stored = _stored_meta(store, requested)
            for t in requested:
                if type(t).__name__ != 'RZ' and t.cache_key in stored and _meta_tuple(t.result_meta) != stored[t.cache_key]:
                    findings.append(core.Finding('C06:result_meta-after-re-execution-is-not-the-one-stored-with-the-result',
                                                 f'{t.name}: {t.result_meta} vs stored {stored[t.cache_key]}'))
            meta1 = {idx1[id(t)]: t.result_meta for t in requested}
            if mode == 'new_lab':
                # the expectation for fresh objects comes from the store itself
                from labtech.types import ResultMeta
                meta1 = {idx1[id(t)]: (ResultMeta(start=stored[t.cache_key][0], duration=stored[t.cache_key][1]) if t.cache_key in stored else t.result_meta)
                         for t in requested}
        # ---- optional history step: a session in which the storage cannot be read (every open for reading raises). Its cache hits fail,
        # but the entries of the tasks that executed successfully earlier must survive it: still reported, loaded (not re-executed) later
        if spec.get('read_fault') and not relative and not fsspec:
            from labtech.storage import LocalStorage

            class _Unreadable(LocalStorage):
                def file_handle(self, key, filename, *, mode='r'):
                    if 'r' in mode:
                        raise OSError('injected: storage temporarily unreadable')
                    return super().file_handle(key, filename, mode=mode)
            summary['read_fault_session'] = True
            obsf = os.path.join(d, 'obsf')
            os.makedirs(obsf)
            os.environ['VERIF_OBS_DIR'] = obsf
            tasks_f = resultcase.build_tasks(spec)
            try:
                labtech.Lab(storage=_Unreadable(store), runner_backend='serial' if spec['b1'] == 'spawn' else spec['b1'], notebook=False,
                            max_workers=2).run_tasks([tasks_f[i] for i in spec['requested']], disable_progress=True, disable_top=True)
            except Exception:
                pass
            lost = [t.name for t in ran if not labtech.Lab(storage=store, notebook=False).is_cached(t)]
            if lost:
                findings.append(core.Finding('C06:entry-of-an-executed-task-lost-after-a-session-whose-loads-failed', str(lost)))
        if mode == 'fresh_interpreter':
            case = {**spec, 'storage': store, 'obs_dir': obs2, 'backend': spec['b2']}
            cf = os.path.join(d, 'case.json')
            of = os.path.join(d, 'out.pickle')
            with open(cf, 'w') as f:
                json.dump(case, f)
            env = dict(os.environ)
            env['PYTHONHASHSEED'] = str(spec['hashseed2'])
            env['VERIF_OBS_DIR'] = obs2
            with open(os.path.join(d, 'child.log'), 'wb') as log:
                p = subprocess.Popen([sys.executable, '-m', 'pbt.c06_child', cf, of], env=env, stdout=log, stderr=log,
                                     stdin=subprocess.DEVNULL, start_new_session=True)
                try:
                    p.wait(timeout=120)
                finally:
                    try:
                        os.killpg(p.pid, 9)
                    except OSError:
                        pass
            if not os.path.exists(of):
                return core.CaseResult(inconclusive=True, summary={'child': open(os.path.join(d, 'child.log'), 'rb').read()[-500:].decode('utf-8', 'replace')})
            out = pickle.load(open(of, 'rb'))
            if 'error' in out:
                findings.append(core.Finding('C06:second-run-raised', out['error'][:300]))
                res2, meta2 = {}, {}
            else:
                res2, meta2 = out['values'], out['meta']
                if not all(out['is_cached'][i] for i, t in enumerate(tasks) if id(t) in closure and type(t).__name__ != 'RZ'):
                    findings.append(core.Finding('C06:not-reported-cached-in-a-fresh-process', str(out['is_cached'])))
                if out['keys'] != [t.cache_key for t in tasks]:
                    findings.append(core.Finding('C06:cache_key-differs-in-a-fresh-process', ''))
        else:
            os.environ['VERIF_OBS_DIR'] = obs2
            if relative:
                os.chdir(os.path.join(d, 'elsewhere'))
            tasks2 = resultcase.build_tasks(spec) if mode == 'new_lab' else tasks
            req2 = [tasks2[i] for i in spec['requested']]
            lab2 = labtech.Lab(storage=lab1._storage if relative else (storages.make('fsspec_local', store) if fsspec else store), runner_backend=spec['b2'],
                               notebook=False, max_workers=2) if mode == 'new_lab' else lab1
            if mode == 'same_lab' and spec['b2'] != spec['b1']:
                lab2 = labtech.Lab(storage=lab1._storage, runner_backend=spec['b2'], notebook=False, max_workers=2)
            try:
                r2 = lab2.run_tasks(req2, disable_progress=True, disable_top=True)
                idx2 = {id(t): i for i, t in enumerate(tasks2)}
                res2 = {idx2[id(t)]: v for t, v in r2.items()}
                meta2 = {idx2[id(t)]: t.result_meta for t in req2}
            except Exception as ex:
                findings.append(core.Finding(f'C06:second-run-raised:{type(ex).__name__}', repr(ex)[:300]))
                res2, meta2 = {}, {}
        if res2:
            for t, v in res1.items():
                i = idx1[id(t)]
                if i not in res2:
                    findings.append(core.Finding('C06:second-run-missing-a-result', t.name))
                elif res2[i] != v:
                    other = [tt.name for tt, vv in res1.items() if vv == res2[i]]
                    findings.append(core.Finding('C06:loaded-value-differs-from-the-stored-one' + (':another-tasks-result' if other else ''),
                                                 f'{t.name}: {str(res2[i])[:120]} vs {str(v)[:120]}'))
                if type(t).__name__ != 'RZ' and (meta2.get(i) != meta1[i] or meta1[i] is None):
                    findings.append(core.Finding('C06:result_meta-differs-from-the-recorded-one', f'{t.name}: {meta2.get(i)} vs {meta1[i]}'))
        if mode != 'fresh_interpreter' and res2 and not relative:
            # independent of what the first run left on the objects: the entry's own metadata file
            stored = _stored_meta(store, req2)
            for t in req2:
                if type(t).__name__ != 'RZ' and t.cache_key in stored and _meta_tuple(t.result_meta) != stored[t.cache_key]:
                    findings.append(core.Finding('C06:result_meta-after-a-cache-hit-is-not-the-one-stored-with-the-result',
                                                 f'{t.name}: {t.result_meta} vs stored {stored[t.cache_key]}'))
        req_uncached = {tasks[i].name for i in spec['requested'] if spec['nodes'][i]['type'] == 'RZ'}
        s2 = [r[1] for r in vu.read_trace(obs2) if r[0] == 'S' and not (r[5] == 'RZ' and r[1] in req_uncached)]
        if s2:
            findings.append(core.Finding('C06:cached-task-executed-again', f'{s2}'))
        summary = {**summary, 'first': sorted(t.name for t in ran), 'second_mode': mode, 'b1': spec['b1'], 'b2': spec['b2']}
    finally:
        try:
            os.chdir(cwd0)
        except Exception:
            pass
        if old is None:
            os.environ.pop('VERIF_OBS_DIR', None)
        else:
            os.environ['VERIF_OBS_DIR'] = old
        shutil.rmtree(d, ignore_errors=True)
    seen = set()
    findings = [f for f in findings if not (f.signature in seen or seen.add(f.signature))]
    fault_done = summary.get('read_fault_session', False)
    nt = len(closure) >= 2 and (spec['second'] == 'fresh_interpreter' or spec['b1'] != spec['b2'] or spec['b2'] != 'serial')
    labels = (f'b1={spec["b1"]}', f'b2={spec["b2"]}', f'read_fault_session={bool(fault_done)}', f'second={spec["second"]}', f'rewrite={bool(spec.get("rewrite"))}', f'storage={spec.get("storage_kind", "local")}',
              'multi_frame_result' if 'bytes\', 70000' in str(spec) or '150000' in str(spec) or '300000' in str(spec) else 'small_results')
    return core.CaseResult(findings=findings, nontrivial=nt, labels=labels, summary=summary)


def _meta_tuple(m):
    return None if m is None else (m.start, m.duration)


def _stored_meta(store: str, tasks) -> dict:
    """(start, duration) as recorded in each entry's metadata.json - read without labtech. Entries in another layout are skipped."""
    import datetime
    out = {}
    for t in tasks:
        try:
            with open(os.path.join(store, t.cache_key, 'metadata.json')) as f:
                m = json.load(f)
            out[t.cache_key] = (datetime.datetime.fromisoformat(m['start_timestamp']), datetime.timedelta(seconds=m['duration_seconds']))
        except Exception:
            continue
    return out


def check_roundtrip(spec: dict) -> core.CaseResult:
    findings = []
    d = tempfile.mkdtemp(prefix='c06r-', dir=os.environ.get('VERIF_SCRATCH'))
    try:
        from labtech.storage import LocalStorage
        storage = LocalStorage(os.path.join(d, 's'))
        tasks = resultcase.build_tasks(spec)
        saved = {}
        for i, t in enumerate(tasks):
            if type(t).__name__ == 'RZ':
                continue
            m = spec['metas'][i % len(spec['metas'])]
            meta = ResultMeta(start=datetime(*m['start']), duration=timedelta(days=m['dur'][0], seconds=m['dur'][1], microseconds=m['dur'][2]))
            value = {'name': t.name, 'v': vu.build_shape(t.shape), 'gen': None, 'i': i}
            t._lt.cache.save(storage, t, TaskResult(value=value, meta=meta))
            saved[i] = (value, meta)
        for i, t in enumerate(resultcase.build_tasks(spec)):
            if i not in saved:
                continue
            if not t._lt.cache.is_cached(storage, t):
                findings.append(core.Finding('C06:saved-but-not-is_cached', t.name))
                continue
            r = t._lt.cache.load_result_with_meta(storage, t)
            if r.value != saved[i][0]:
                findings.append(core.Finding('C06:roundtrip-value-differs', t.name))
            if r.meta != saved[i][1]:
                findings.append(core.Finding('C06:roundtrip-meta-differs', f'{r.meta} vs {saved[i][1]}'))
    finally:
        shutil.rmtree(d, ignore_errors=True)
    seen = set()
    findings = [f for f in findings if not (f.signature in seen or seen.add(f.signature))]
    return core.CaseResult(findings=findings, nontrivial=len(spec['nodes']) >= 2, labels=('roundtrip',), summary={'n': len(spec['nodes'])})


def check_main_script(case: dict) -> core.CaseResult:
    """Task types defined in __main__ of a user script (pbt/mainscript.py run as a script): first run with b1, second with b2."""
    findings = []
    d = tempfile.mkdtemp(prefix='c06m-', dir=os.environ.get('VERIF_SCRATCH'))
    try:
        obs = os.path.join(d, 'obs')
        os.makedirs(obs)
        full = {**case, 'storage': os.path.join(d, 'store')}
        with open(os.path.join(d, 'case.json'), 'w') as f:
            json.dump(full, f)
        env = dict(os.environ)
        env['VERIF_OBS_DIR'] = obs
        env['PYTHONHASHSEED'] = str(case.get('hashseed', 0))
        script = os.path.join(os.path.dirname(os.path.dirname(os.path.abspath(__file__))), 'mainscript.py')
        with open(os.path.join(d, 'log'), 'wb') as log:
            p = subprocess.Popen([sys.executable, script, os.path.join(d, 'case.json'), os.path.join(d, 'out.json')], env=env, stdout=log, stderr=log,
                                 stdin=subprocess.DEVNULL, start_new_session=True)
            try:
                p.wait(timeout=180)
            finally:
                try:
                    os.killpg(p.pid, 9)
                except OSError:
                    pass
        if not os.path.exists(os.path.join(d, 'out.json')):
            return core.CaseResult(inconclusive=True, summary={'log': open(os.path.join(d, 'log'), 'rb').read()[-500:].decode('utf-8', 'replace')})
        o = json.load(open(os.path.join(d, 'out.json')))
    finally:
        shutil.rmtree(d, ignore_errors=True)
    if 'error' in o:
        findings.append(core.Finding('C06:main-script:run-raised', o['error']))
    else:
        keys = o['keys_in_parent']
        for ln in o['worker_lines']:
            _, name, pid, mod, key = ln.split(' ')
            if keys.get(name) != key:
                findings.append(core.Finding('C06:main-script:cache_key-in-worker-differs-from-the-callers', f'{name}: worker({mod}) {key} vs caller {keys.get(name)}'))
        not_cached = [n for n, c in o['is_cached'].items() if not c]
        if not_cached:
            findings.append(core.Finding('C06:main-script:executed-task-not-reported-cached', str(not_cached)))
        if sorted(o['storage_keys']) != sorted(set(keys.values())):
            findings.append(core.Finding('C06:main-script:key-directories-differ-from-the-executed-tasks-keys', f'{o["storage_keys"]} vs {sorted(set(keys.values()))}'))
        if o['runs_in_second']:
            findings.append(core.Finding('C06:main-script:cached-task-executed-again', str(o['runs_in_second'][:3])))
        if o['values2'] != o['values1']:
            findings.append(core.Finding('C06:main-script:loaded-values-differ', f'{o["values2"]} vs {o["values1"]}'))
        if 'cached_tasks_error' in o:
            findings.append(core.Finding('C06:main-script:cached_tasks-raised', o['cached_tasks_error']))
        else:
            want = sorted(f'{"Leaf" if n.startswith("l") else "Parent"}:{n}:{k}' for n, k in keys.items())
            if o['cached_tasks'] != want or not o['cached_tasks_equal']:
                findings.append(core.Finding('C06:main-script:cached_tasks-differs', f'{o["cached_tasks"]} vs {want}'))
    seen = set()
    findings = [f for f in findings if not (f.signature in seen or seen.add(f.signature))]
    return core.CaseResult(findings=findings, nontrivial=True, labels=(f'main-script:b1={case["b1"]}', f'main-script:b2={case["b2"]}'),
                           summary={k: o.get(k) for k in ('is_cached', 'runs_in_second', 'error')})


def main_script_case():
    opts = st.one_of(st.none(), st.dictionaries(st.sampled_from(['z', 'a', 'm']), st.integers(0, 3), max_size=3), st.lists(st.integers(0, 3), max_size=2))
    return st.builds(lambda leaves, parents, b1, b2, hs: {'leaves': leaves, 'parents': parents, 'b1': b1, 'b2': b2, 'hashseed': hs},
                     st.lists(st.tuples(st.integers(0, 5), opts).map(list), min_size=1, max_size=3, unique_by=lambda t: json.dumps(t, sort_keys=True)),
                     st.lists(st.tuples(st.integers(0, 2), st.sampled_from([0.5, 1.0, 2.0, 3.5]), st.booleans()).map(list), min_size=1, max_size=3,
                              unique_by=lambda t: json.dumps(t)),
                     st.sampled_from(['spawn', 'spawn', 'fork', 'serial']), st.sampled_from(['serial', 'fork', 'spawn']), st.integers(0, 50))


def meta_strategy():
    return st.builds(lambda dt, days, secs, us: {'start': [dt.year, dt.month, dt.day, dt.hour, dt.minute, dt.second, dt.microsecond],
                                                 'dur': [days, secs, us]},
                     st.datetimes(min_value=datetime(1990, 1, 1), max_value=datetime(2100, 1, 1)),
                     st.integers(0, 10), st.integers(0, 86399), st.integers(0, 999999))


@st.composite
def rerun_spec(draw, backends, fresh_rate: int):
    nodes = draw(resultcase.node_sets())
    n = len(nodes)
    requested = sorted(set(draw(st.lists(st.integers(0, n - 1), min_size=1, max_size=n)))) + ([n - 1] if draw(st.booleans()) else [])
    requested = list(dict.fromkeys(requested))
    second = 'fresh_interpreter' if draw(st.integers(0, 99)) < fresh_rate else draw(st.sampled_from(['same_lab', 'new_lab']))
    return {'nodes': nodes, 'requested': requested, 'b1': draw(st.sampled_from(backends)), 'b2': draw(st.sampled_from(backends)),
            'second': second, 'hashseed2': draw(st.integers(1, 4000)), 'relative_storage': draw(st.integers(0, 4)) == 0,
            'rewrite': draw(st.integers(0, 2)) == 0, 'read_fault': draw(st.integers(0, 3)) == 0, 'storage_kind': draw(st.sampled_from(['local', 'local', 'fsspec_local']))}


def plan(tier: str) -> list[dict]:
    q = tier == 'quick'
    jobs = [{'engine': 'rerun', 'backends': ['serial'], 'fresh': 0, 'n': 60 if q else 2500, 'hashseed': i} for i in range(4)]
    jobs += [{'engine': 'rerun', 'backends': ['serial', 'fork'], 'fresh': 25, 'n': 16 if q else 500, 'hashseed': 4 + i} for i in range(5)]
    jobs += [{'engine': 'rerun', 'backends': ['serial', 'fork', 'spawn'], 'fresh': 30, 'n': 6 if q else 120, 'hashseed': i} for i in range(3)]
    jobs += [{'engine': 'roundtrip', 'n': 150 if q else 5000, 'hashseed': i} for i in range(3)]
    jobs += [{'engine': 'main-script', 'n': 4 if q else 80, 'hashseed': i} for i in range(2)]
    return jobs


def run_job(rec: core.Recorder, job: dict, seed: int) -> None:
    if job['engine'] == 'main-script':
        core.run_hypothesis(rec, 'main-script', main_script_case(), check_main_script, max_examples=job['n'], seed=seed, shrink=False)
        return
    if job['engine'] == 'roundtrip':
        strat = st.builds(lambda nodes, metas: {'nodes': nodes, 'metas': metas}, resultcase.node_sets(max_big=80_000),
                          st.lists(meta_strategy(), min_size=1, max_size=3))
        core.run_hypothesis(rec, 'roundtrip', strat, check_roundtrip, max_examples=job['n'], seed=seed)
    else:
        name = 'rerun:' + '+'.join(job['backends'])
        core.run_hypothesis(rec, name, rerun_spec(job['backends'], job['fresh']), check_rerun, max_examples=job['n'], seed=seed,
                            shrink=(job['backends'] == ['serial'] or rec.tier == 'thorough'))


def replay(record: dict) -> core.CaseResult:
    case = record['case']
    if 'leaves' in case:
        return check_main_script(case)
    return check_roundtrip(case) if 'metas' in case else check_rerun(case)
