"""C01 - run_tasks returns exactly each requested task's own computed result."""
from __future__ import annotations

from pbt import core, dagprop, dagrun, oracles, specs

LEVEL = 'exploration'
DESIGN_REF = 'DESIGN.md 2/C01'
RULE = ('Hypothesis generates DAG case specs (1-10 nodes over types with max_parallel 1/2/3/None, uncached and '
        'context-filtering types; dependencies placed in generated nested list/tuple/dict containers; shared '
        'instances and fresh equal duplicates across parents and inside one parent; requested multiset incl. '
        'dependencies of other requested nodes; max_workers; pre-cached subset; bust_cache; context; completion '
        'schedule) and runs each under the schedule-controlling in-process Runner, and sampled ones under the real '
        'serial / fork / spawn backends in processes with different hash seeds. Engine "two-runs": a second run_tasks call on the '
        'SAME task objects (same Lab object or a new Lab on the same storage) with another nonce, with/without bust_cache, optionally after uncache_tasks of a subset through the first Lab. Engine "fork+gated+displays": 3-15 gated tasks inside run() at once with progress bars and task monitor shown under generated top_sort / top_n / top_format options. Engine "scale": 130-220 leaves gathered by one or two readers followed by a chain of dependents (serial, fork, controlled). Engine "twins": some nodes get a twin of an inheriting task type with exactly the same field '
        'values (two tasks that differ only in their type), both read by one dependent. Oracle: returned keys == request '
        'list de-duplicated in order, each value == reference sequential evaluator. Non-trivial = closure of >= 3 '
        'nodes and at least one of: shared dependency, duplicate equal instance, dependency nested at container '
        'depth >= 2, requested node that is also a dependency, non-empty proper pre-cached subset. Distinct = '
        'canonical hash of (engine, spec).')
ASSUMPTIONS = [
    'node values embed node identity, every dependency value read and the run nonce, so a swapped/stale/foreign result changes the value',
    'the ControlledRunner follows the Runner docstring contract; it is harness code, the coordinator/caches/storage are the system under test',
    'real-backend schedules are whatever the OS produced for the sampled cases (generator-owned schedules only under the ControlledRunner)',
]


def gen(backends, **kw):
    return specs.dag_spec(max_nodes=10, backends=backends, **kw)


def check(spec: dict) -> core.CaseResult:
    obs = dagrun.execute_case(spec)
    ex = oracles.expect_for(spec, obs)
    findings = oracles.c01_return_value(spec, obs, ex)
    f = specs.features(spec)
    nt = f['n_closure'] >= 3 and (f['shared'] > 0 or f['fresh_dups'] > 0 or f['max_depth'] >= 2 or f['req_is_dep']
                                  or f['pre_cached_proper'])
    labels = [f'backend={spec["lab"]["backend"]}', f'max_workers={spec["lab"]["max_workers"]}']
    for k in ('shared', 'fresh_dups', 'dup_in_one_parent', 'req_is_dep', 'pre_cached_proper', 'repeat_request'):
        if f[k]:
            labels.append(k)
    if f['max_depth'] >= 2:
        labels.append('nested_depth>=2')
    if spec['lab'].get('bust_cache'):
        labels.append('bust_cache')
    if spec.get('twins'):
        labels.append('inheritance_twins')
    return dagprop.result(obs, findings, nt, labels, hang_is_violation=False, prop='C01')


def wide_displays_spec():
    """More simultaneously executing tasks than the task monitor shows by default (top_n = 10), with the displays on."""
    from hypothesis import strategies as st

    @st.composite
    def gen(draw):
        n = draw(st.sampled_from([12, 5, 11, 3, 13, 15]))      # below and above the monitor's default top_n of 10
        nodes = [{'id': i, 'type': draw(st.sampled_from(['NN', 'Z', 'N'])), 'name': f'n{i}', 'mode': 'ok', 'read': True, 'payload': i, 'deps': {'s': None}}
                 for i in range(n)]
        if draw(st.booleans()):
            nodes.append({'id': n, 'type': 'NN', 'name': f'n{n}', 'mode': 'ok', 'read': True, 'payload': None,
                          'deps': {'list': [{'ref': j, 'fresh': False} for j in range(0, n, 3)]}})
        lab = {'backend': 'fork', 'max_workers': draw(st.sampled_from([n, n + 2])), 'continue_on_failure': True, 'bust_cache': False,
               'storage': draw(st.sampled_from(['local', 'none'])), 'displays': True, 'context': {}, 'top': draw(dagrun.top_strategy(dense=True))}
        return {'nodes': nodes, 'requested': [{'ref': i, 'fresh': False} for i in range(len(nodes))], 'lab': lab, 'pre_cached': [],
                'schedule': draw(st.lists(st.integers(0, 7), max_size=12)), 'wide_displays': True}
    return gen()


def check_wide(spec: dict) -> core.CaseResult:
    obs = dagrun.execute_case(spec, gated=True)
    ex = oracles.expect_for(spec, obs)
    findings = oracles.c01_return_value(spec, obs, ex)
    most = max([len(e[1]) for e in obs.events if e[0] == 'rest'] or [0])
    return dagprop.result(obs, findings, most >= 3, ['backend=fork', 'displays_on', f'top_sort={(spec["lab"].get("top") or {}).get("sort")}', f'most_tasks_inside_run_at_rest={min(most, 16)}'], prop='C01')


def judge_obs(case: dict, obs) -> core.CaseResult:
    ex = oracles.expect_for(case, obs)
    f = specs.features(case)
    return core.CaseResult(findings=oracles.c01_return_value(case, obs, ex), nontrivial=f['n_closure'] >= 3 and (f['shared'] > 0 or f['pre_cached_proper']),
                           labels=('exhaustive-small',), summary=None)


def check_two_runs(spec: dict) -> core.CaseResult:
    """Two run_tasks calls on the SAME task objects (same Lab object, or a new Lab on the same storage); the second with another
    nonce in the context, with or without bust_cache. Both returned dicts must equal the reference."""
    second = spec['second']
    obs = dagrun.execute_case(spec, second=second)
    ex1 = oracles.expect_for(spec, obs)
    findings = oracles.c01_return_value(spec, obs, ex1)
    if obs.second is not None and obs.outcome == 'return':
        ex2 = oracles.expect_second(spec, obs, ex1, second)
        spec2 = spec if second.get('requested') is None else {**spec, 'requested': [{'ref': i, 'fresh': False} for i in second['requested']]}
        for f in oracles.c01_return_value(spec2, obs.second, ex2):
            findings.append(core.Finding(f.signature.replace('C01:', 'C01:second-run:'), f.detail))
    f = specs.features(spec)
    labels = [f'backend={spec["lab"]["backend"]}', f'second:same_lab={second.get("same_lab")}', f'second:bust={second.get("bust")}', f'second:uncached_between={bool(second.get("uncache"))}',
              f'second:other_request_list={second.get("requested") is not None}']
    return dagprop.result(obs, findings, f['n_closure'] >= 2, labels, prop='C01')


def plan(tier: str) -> list[dict]:
    q = tier == 'quick'
    jobs = []
    for i in range(12):
        jobs.append({'engine': 'controlled', 'n': 120 if q else 2500, 'hashseed': i % 6})
    jobs.append({'engine': 'serial', 'n': 40 if q else 1500, 'hashseed': 1})
    for i in range(2):
        jobs.append({'engine': 'fork', 'n': 25 if q else 700, 'hashseed': 2 + i})
    jobs.append({'engine': 'spawn', 'n': 6 if q else 150, 'hashseed': 4})
    jobs.append({'engine': 'two-runs:serial', 'n': 80 if q else 2500, 'hashseed': 5})
    jobs.append({'engine': 'two-runs:controlled', 'n': 80 if q else 2500, 'hashseed': 6})
    jobs.append({'engine': 'two-runs:fork', 'n': 14 if q else 400, 'hashseed': 7})
    jobs.append({'engine': 'twins:controlled', 'n': 100 if q else 2500, 'hashseed': 0})
    jobs.append({'engine': 'twins:serial', 'n': 40 if q else 1000, 'hashseed': 1})
    jobs.append({'engine': 'twins:fork', 'n': 10 if q else 300, 'hashseed': 2})
    jobs.append({'engine': 'fork+gated+displays', 'n': 8 if q else 80, 'hashseed': 6})
    jobs.append({'engine': 'scale:fork', 'n': 2 if q else 40, 'hashseed': 3})
    jobs.append({'engine': 'scale:serial', 'n': 1 if q else 20, 'hashseed': 4})
    jobs.append({'engine': 'scale:controlled', 'n': 2 if q else 40, 'hashseed': 5})
    return list(jobs) + dagprop.exhaustive_jobs(tier, 4)


def run_job(rec: core.Recorder, job: dict, seed: int) -> None:
    if job['engine'] == 'exhaustive-small':
        dagprop.run_exhaustive_job(rec, job, judge_obs, failing=False, cached=True)
        return
    eng = job['engine']
    if eng.startswith('two-runs:'):
        from hypothesis import strategies as st
        b = eng.split(':')[1]
        def mk(sp, same, bust, unc, req2):
            second = {'same_lab': same, 'bust': bust, 'uncache': sorted({i for i in unc if i < len(sp['nodes'])})}
            # the second call may request OTHER tasks than the first (e.g. only a dependent of a task that was requested before and
            # is now re-executed as a mere dependency): what the first call left on the task objects must not be read then
            req2 = list(dict.fromkeys(i for i in (req2 or []) if i < len(sp['nodes'])))
            if req2:
                second['requested'] = req2
            return {**sp, 'second': second}
        strat = st.builds(mk, specs.dag_spec(max_nodes=7, backends=(b,), dup_bias=(seed % 2 == 0), storages=('local', 'local', 'none', 'fsspec_local')),
                          st.booleans(), st.booleans(), st.one_of(st.just([]), st.lists(st.integers(0, 6), max_size=4)),
                          st.one_of(st.none(), st.lists(st.integers(0, 6), min_size=1, max_size=3)))
        core.run_hypothesis(rec, eng, strat, check_two_runs, max_examples=job['n'], seed=seed, shrink=(b != 'fork' or rec.tier == 'thorough'))
        return
    if eng == 'fork+gated+displays':
        core.run_hypothesis(rec, eng, wide_displays_spec(), check_wide, max_examples=job['n'], seed=seed, shrink=False)
        return
    if eng.startswith('scale:'):
        from pbt.props import c17
        b = eng.split(':')[1]
        strat = c17.scale_spec().map(lambda sp: {**sp, 'lab': {**sp['lab'], 'backend': b}})
        core.run_hypothesis(rec, eng, strat, check, max_examples=job['n'], seed=seed, shrink=False)
        return
    if eng.startswith('twins:'):
        b = eng.split(':')[1]
        core.run_hypothesis(rec, eng, specs.twin_spec(max_nodes=6, backends=(b,)), check, max_examples=job['n'], seed=seed,
                            shrink=(b != 'fork' or rec.tier == 'thorough'))
        return
    small = eng == 'spawn'
    strat = specs.dag_spec(max_nodes=5 if small else 10, backends=(eng,), dup_bias=(seed % 2 == 0))
    core.run_hypothesis(rec, eng, strat, check, max_examples=job['n'], seed=seed, shrink=(eng == 'controlled' or rec.tier == 'thorough'))


def replay(record: dict) -> core.CaseResult:
    case = record['case']
    if case.get('wide_displays'):
        return check_wide(case)
    return check_two_runs(case) if 'second' in case else check(case)
