"""C13 - killing a task mid-save cannot poison the cache."""
from __future__ import annotations

from hypothesis import strategies as st

from pbt import core, resultcase, savefault
from pbt.props import c12

LEVEL = 'fault_enumeration'
EXHAUSTIVE_CLAIM = True
RULE = ('The C12 matrix under the fork backend, but the worker process KILLS ITSELF at each enumerated point: every storage event of '
        'the save (before/after each open, before / in the middle of / after each write, flush, close) with SIGKILL and with SIGTERM '
        '(what ProcessExecutor.stop() sends), each with Python-level buffers lost or flushed first, and every line event of the '
        'save path (tracer armed inside run(), so only the child is traced); plus SIGTERM at every storage event (thorough: and line event) when the host '
        'program has installed its own exit-cleanly SIGTERM handler before the run (forked workers inherit it). Per combination all points are enumerated from a '
        'fault-free dry run; Hypothesis adds generated result shapes with drawn kill points. After the kill the on-disk entry is '
        'classified independently of labtech (absent / complete old|new / metadata in {absent, partial, complete} x data in {absent, '
        'partial, old, new, mixed}, by byte comparison with reference entries), then a fresh Lab is asked: oracle = not is_cached and not listed, or '
        'is_cached, listed once and run_tasks loads (zero executions) the complete correct value (after overwrite old or new); '
        'the parent run must report the task as failed (died) and terminate. Non-trivial = kill point after the key directory '
        'exists and before the entry is complete on disk. Distinct = hash of case.')
ASSUMPTIONS = ['crash = process kill; power loss / page-cache loss is not modelled',
               'post-state is read from disk by a fresh Lab in the harness process (no state survives in memory from the killed worker)']


def combos(tier: str) -> list[dict]:
    q = tier == 'quick'
    out = []
    for typ in ('RV', 'RJ'):
        for overwrite in (False, True):
            for storage in ('local', 'fsspec_local'):
                for shape_name, shape in (('small', c12.SMALL), ('multi', c12.MULTI)):
                    if q and not (typ == 'RV' and storage == 'local' and shape_name == 'small'):
                        continue
                    out.append({'type': typ, 'shape': shape, 'shape_name': shape_name, 'overwrite': overwrite, 'storage': storage, 'backend': 'fork'})
    return out


def enumerate_cases(tier: str) -> list[dict]:
    cases = []
    q = tier == 'quick'
    for c in combos(tier):
        events, lines = savefault.dry_run({**c, 'inject': {'kind': 'none'}})
        variants = [('kill9', 'lost'), ('kill9', 'flushed'), ('kill15', 'lost')] if not q else [('kill9', 'lost'), ('kill15', 'flushed')]
        names = savefault.event_names({**c, 'inject': {'kind': 'none'}}) if q else []
        for j in range(events):
            if q and j < len(names) and names[j] == 'write-after':
                continue          # quick tier: same disk state as the next event's "before"
            for action, flavour in variants:
                if q and (j + (0 if action == 'kill9' else 1)) % 2:
                    continue      # quick tier: each event once, alternating the signal/flavour variant
                cases.append({**c, 'inject': {'kind': 'storage', 'at': j, 'action': action, 'flavour': flavour}, 'total': events})
        for k in range(lines):
            for action in (('kill9', 'kill15') if not q else ('kill9',)):
                cases.append({**c, 'inject': {'kind': 'line', 'at': k, 'action': action}, 'total': lines})
        # the host program installed its own SIGTERM handler before the run (forked workers inherit it): terminate at every storage
        # event, in the thorough tier also at every line event
        if c['storage'] == 'local':
            for j in range(events):
                if q and j % 3 != 0 and j < events - 6:
                    continue
                cases.append({**c, 'host_sigterm': True, 'inject': {'kind': 'storage', 'at': j, 'action': 'kill15', 'flavour': 'lost'}, 'total': events})
            if not q:
                for k in range(lines):
                    cases.append({**c, 'host_sigterm': True, 'inject': {'kind': 'line', 'at': k, 'action': 'kill15'}, 'total': lines})
    return cases


def check(case: dict) -> core.CaseResult:
    out, disk_class = savefault.run_kill_case(case)
    findings = savefault.judge_kill(case, out, disk_class)
    nt = out.reached and disk_class.startswith('metadata=') or (
        out.reached and bool(case.get('overwrite')) and case['inject'].get('at', 0) > 0)
    labels = [f'inject={case["inject"]["kind"]}', f'signal={case["inject"].get("action")}', f'buffers={case["inject"].get("flavour", "n/a")}',
              f'type={case["type"]}', f'{"overwrite" if case.get("overwrite") else "first-save"}', f'storage={case["storage"]}',
              f'shape={case.get("shape_name", "generated")}', f'host_sigterm_handler={bool(case.get("host_sigterm"))}', f'disk={disk_class}', f'post={"cached" if out.is_cached is True else "not-cached"}:{out.load}',
              'reached' if out.reached else 'not-reached']
    s = out.summary()
    s['disk_class'] = disk_class
    return core.CaseResult(findings=findings, nontrivial=bool(nt), labels=tuple(labels), summary=s)


NSHARDS = 15


def plan(tier: str) -> list[dict]:
    jobs = [{'engine': 'enumerated', 'shard': i, 'hashseed': i % 8} for i in range(NSHARDS)]
    jobs += [{'engine': 'generated', 'n': 15 if tier == 'quick' else 1200, 'hashseed': 3}]
    return jobs


@st.composite
def generated_case(draw):
    kind = draw(st.sampled_from(['storage', 'storage', 'line']))
    return {'type': draw(st.sampled_from(['RV', 'RJ'])), 'shape': draw(resultcase.shapes(max_big=150_000)), 'overwrite': draw(st.booleans()),
            'storage': draw(st.sampled_from(['local', 'fsspec_local'])), 'backend': 'fork',
            'inject': {'kind': kind, 'at': draw(st.integers(0, 300)), 'action': draw(st.sampled_from(['kill9', 'kill15'])),
                       'flavour': draw(st.sampled_from(['lost', 'flushed']))}}


def run_job(rec: core.Recorder, job: dict, seed: int) -> None:
    if job['engine'] == 'enumerated':
        cases = enumerate_cases(rec.tier)
        mine = [c for i, c in enumerate(cases) if i % NSHARDS == job['shard']]
        core.run_cases(rec, 'enumerated', mine, check)
        rec.exhaustive[f'shard{job["shard"]}'] = {
            'complete': rec.tier == 'thorough', 'points': len(mine), 'of_total': len(cases), 'combinations': len(combos(rec.tier)),
            'step': 'thorough: every kill point x {SIGKILL lost, SIGKILL flushed, SIGTERM lost}; quick: every storage event once '
                    '(alternating SIGKILL-lost / SIGTERM-flushed) and every line event with SIGKILL'}
    else:
        core.run_hypothesis(rec, 'generated', generated_case(), check, max_examples=job['n'], seed=seed, shrink=False)


def replay(record: dict) -> core.CaseResult:
    return check(record['case'])
