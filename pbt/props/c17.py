"""C17 - intermediate results live exactly as long as a dependent needs them."""
from __future__ import annotations

from pbt import core, dagprop, oracles, specs

LEVEL = 'exploration'
RULE = ('C01/C10 DAGs (shared dependencies with 1-4 dependents, requested nodes that are dependencies, failing and non-reading '
        'nodes), completion schedules, processes with hash seeds 0-7 (set iteration order picks the release order). '
        'ControlledRunner (its map is only ever shrunk by labtech\'s remove_results calls): (1) at each start every successful '
        'dependency result is present; (2) after the coordinator has processed each single completion, the set of held results '
        'equals exactly {successful finished d : some direct dependent of d in this run is unfinished} - i.e. released as soon as '
        'the last dependent finished and never earlier; (3) get_result of a requested task happens before its release; (4) at '
        'close after a normal return the map is empty, also with failures. Real serial/fork/spawn runners through the spy: after '
        'a normal return real.get_result(t) raises KeyError for every node, and every read of a successful dependency inside run() '
        'yielded its value; engine "scale": the same on fork runs that release 130-220 results before a chain of dependents starts. Non-trivial = a dependency with >= 2 dependents '
        'finishing in different batches, or a release step involving a failed node. Distinct = hash of (engine, spec).')
ASSUMPTIONS = ['"as soon as" is checked at the granularity of one processed completion (the next line labtech executes after remove_results)']


def check(spec: dict) -> core.CaseResult:
    obs, ex, gated = dagprop.run_spec(spec)
    findings, nt = oracles.c17_retention(spec, obs, ex)
    # availability, seen from inside run(): a successful dependency's result can be read by every dependent that starts
    for f_ in oracles.c02_ordering(spec, obs, ex):
        if f_.signature.startswith('C02:read-of-successful-dependency-raised'):
            findings.append(core.Finding('C17:result-of-a-finished-dependency-not-available-to-its-dependent', f_.detail))
    f = specs.features(spec)
    labels = dagprop.base_labels(spec, f, gated)
    return dagprop.result(obs, findings, nt, labels, prop='C17')


def judge_obs(case: dict, obs) -> core.CaseResult:
    ex = oracles.expect_for(case, obs)
    findings, nt = oracles.c17_retention(case, obs, ex)
    return core.CaseResult(findings=findings, nontrivial=nt or len(case['nodes']) >= 3, labels=('exhaustive-small',), summary=None)


def scale_spec():
    """Runs that release hundreds of results: 130-220 leaves gathered by one or two readers, followed by a chain of dependents."""
    from hypothesis import strategies as st

    @st.composite
    def gen(draw):
        n = draw(st.integers(130, 220))
        nodes = [{'id': i, 'type': draw(st.sampled_from(['NN', 'Z'])), 'name': f'n{i}', 'mode': 'ok', 'read': True, 'payload': None, 'deps': {'s': None}}
                 for i in range(n)]
        cut = draw(st.integers(1, n - 1)) if draw(st.booleans()) else n
        gathers = []
        for lo, hi in ((0, cut), (cut, n)):
            if lo < hi:
                gathers.append(len(nodes))
                nodes.append({'id': len(nodes), 'type': 'NN', 'name': f'n{len(nodes)}', 'mode': 'ok', 'read': True, 'payload': None,
                              'deps': {'list': [{'ref': j, 'fresh': False} for j in range(lo, hi)]}})
        prev = gathers
        for _ in range(draw(st.integers(2, 4))):
            nodes.append({'id': len(nodes), 'type': draw(st.sampled_from(['NN', 'N1'])), 'name': f'n{len(nodes)}', 'mode': 'ok', 'read': True,
                          'payload': None, 'deps': {'list': [{'ref': j, 'fresh': False} for j in prev]}})
            prev = [len(nodes) - 1]
        lab = {'backend': 'fork', 'max_workers': draw(st.sampled_from([None, 8, 4])), 'continue_on_failure': True, 'bust_cache': False,
               'storage': draw(st.sampled_from(['none', 'none', 'local'])), 'displays': False, 'context': {}}
        return {'nodes': nodes, 'requested': [{'ref': prev[0], 'fresh': False}], 'lab': lab, 'pre_cached': [], 'schedule': []}
    return gen()


def plan(tier: str) -> list[dict]:
    q = tier == 'quick'
    jobs = list(dagprop.std_plan(tier, controlled=(11, 150, 2500), serial=(2, 40, 800), fork=(2, 20, 400), spawn=(1, 5, 80))) + dagprop.exhaustive_jobs(tier, 4)
    jobs.append({'engine': 'scale:fork', 'n': 3 if q else 40, 'hashseed': 6})
    return jobs


def run_job(rec: core.Recorder, job: dict, seed: int) -> None:
    if job['engine'] == 'exhaustive-small':
        dagprop.run_exhaustive_job(rec, job, judge_obs, failing=True, cached=False)
        return
    if job['engine'] == 'scale:fork':
        core.run_hypothesis(rec, 'scale:fork', scale_spec(), check, max_examples=job['n'], seed=seed, shrink=False)
        return
    eng = job['engine']
    fail = ['raise:ValueError', 'raise:CustomErr'] + ([] if eng == 'serial' else ['kill9'])
    strat = specs.dag_spec(min_nodes=2, max_nodes=5 if eng == 'spawn' else 9, backends=(eng,), fail_modes=fail, fail_rate=20,
                           noread_rate=25, bust=True)
    core.run_hypothesis(rec, eng, strat, check, max_examples=job['n'], seed=seed,
                        shrink=(eng == 'controlled' or rec.tier == 'thorough'))


def replay(record: dict) -> core.CaseResult:
    return check(record['case'])
