"""C17 - intermediate results live exactly as long as a dependent needs them."""
from __future__ import annotations

from pbt import core, dagprop, oracles, specs

LEVEL = 'exploration'
RULE = ('C01/C10 DAGs (shared dependencies with 1-4 dependents, requested nodes that are dependencies, failing and non-reading '
        'nodes), completion schedules, processes with hash seeds 0-7 (set iteration order picks the release order). '
        'ControlledRunner (its map is only ever shrunk by labtech\'s remove_results calls): (1) at each start every successful '
        'dependency result is present; (2) after the coordinator has processed each single completion, the set of held results '
        'equals exactly {successful finished d : some direct dependent of d in this run is unfinished} - i.e. released as soon as '
        'the last dependent finished and never earlier; (3) get_result of a requested task happens before its release; (4) at '
        'close after a normal return the map is empty, also with failures. Real serial/fork/spawn runners through the spy: after '
        'a normal return real.get_result(t) raises KeyError for every node. Non-trivial = a dependency with >= 2 dependents '
        'finishing in different batches, or a release step involving a failed node. Distinct = hash of (engine, spec).')
ASSUMPTIONS = ['"as soon as" is checked at the granularity of one processed completion (the next line labtech executes after remove_results)']


def check(spec: dict) -> core.CaseResult:
    obs, ex, gated = dagprop.run_spec(spec)
    findings, nt = oracles.c17_retention(spec, obs, ex)
    f = specs.features(spec)
    labels = dagprop.base_labels(spec, f, gated)
    return dagprop.result(obs, findings, nt, labels, prop='C17')


def judge_obs(case: dict, obs) -> core.CaseResult:
    ex = oracles.expect_for(case, obs)
    findings, nt = oracles.c17_retention(case, obs, ex)
    return core.CaseResult(findings=findings, nontrivial=nt or len(case['nodes']) >= 3, labels=('exhaustive-small',), summary=None)


def plan(tier: str) -> list[dict]:
    return list(dagprop.std_plan(tier, controlled=(11, 150, 2500), serial=(2, 40, 800), fork=(2, 20, 400), spawn=(1, 5, 80))) + dagprop.exhaustive_jobs(tier, 4)


def run_job(rec: core.Recorder, job: dict, seed: int) -> None:
    if job['engine'] == 'exhaustive-small':
        dagprop.run_exhaustive_job(rec, job, judge_obs, failing=True, cached=False)
        return
    eng = job['engine']
    fail = ['raise:ValueError', 'raise:CustomErr'] + ([] if eng == 'serial' else ['kill9'])
    strat = specs.dag_spec(min_nodes=2, max_nodes=5 if eng == 'spawn' else 9, backends=(eng,), fail_modes=fail, fail_rate=20,
                           noread_rate=25, bust=True)
    core.run_hypothesis(rec, eng, strat, check, max_examples=job['n'], seed=seed,
                        shrink=(eng == 'controlled' or rec.tier == 'thorough'))


def replay(record: dict) -> core.CaseResult:
    return check(record['case'])
