"""C08 - cache contents evolve exactly as run, bust_cache and uncache dictate (stateful, model-based)."""
from __future__ import annotations

import os
import shutil
import tempfile

import hypothesis
from hypothesis import strategies as st
from hypothesis.stateful import RuleBasedStateMachine, invariant, precondition, rule, run_state_machine_as_test

import labtech

from pbt import core, refmodel, specs, storages
from pbt.runners import Chooser, Control, ControlledBackend
from pbt.universe import vu

LEVEL = 'exploration'
RULE = ('Hypothesis RuleBasedStateMachine over a fixed universe of 9 tasks (PickleCache types, a custom two-file BaseCache type, a '
        'PickleCache subclass, one cache=None type; dependency edges between them; two tasks whose success depends on a context '
        'flag so the same task fails in one step and succeeds in a later one). Machine parameters: storage provider in '
        '{LocalStorage, storage=None, FsspecStorage on fsspec LocalFileSystem, FsspecStorage on fsspec MemoryFileSystem}. Rules: '
        'run_tasks(subset, bust_cache, flags, backend in {serial, fork, schedule-controlled}) - for a single task also through Lab.run_task -, uncache_tasks(subset) through the long-lived session Lab or through another Lab object on the same storage, '
        'is_cached(task), cached_tasks(type subset), new Lab on the same storage. Oracle: a dictionary model task -> stored value '
        'stepped in lock-step (reference evaluator decides what a run executes/loads/returns and which entries it adds or '
        'replaces); after every rule is_cached of all 9 tasks, cached_tasks per type and the set of storage keys must equal the '
        'model, and the result_meta of every load / listed task must be the one recorded by the execution that stored the entry; cache=None types and storage=None never persist anything. Non-trivial = a sequence containing run -> uncache (proper '
        'subset) -> run, or run -> run(bust_cache), with at least one dependency edge involved. Distinct = hash of (storage, op list).')
ASSUMPTIONS = ['fork steps use whatever completion order the OS produces; the controlled backend draws it from the step\'s schedule']

#            id  type   mode        read  deps
UNIVERSE = [(0, 'NN', 'ok', True, []),
            (1, 'N1', 'flag:fa', True, []),
            (2, 'J', 'ok', True, [0]),
            (3, 'NN', 'ok', True, [0, 1]),
            (4, 'Z', 'ok', True, [2]),
            (5, 'N2', 'flag:ff', True, [3, 4]),
            (6, 'P2', 'ok', True, []),
            (7, 'NX', 'ok', False, [6, 2]),
            (8, 'N', 'ok', True, [7])]


def universe_spec() -> dict:
    nodes = []
    for i, t, mode, read, deps in UNIVERSE:
        if not deps:
            sh = {'s': None}
        elif len(deps) == 1:
            sh = {'ref': deps[0], 'fresh': False}
        else:
            sh = {'list': [{'ref': deps[0], 'fresh': False}, {'dict': {'zeta': {'ref': deps[1], 'fresh': True}, 'alpha': {'s': 1}, 'mid': {'s': None}}}]}
        nodes.append({'id': i, 'type': t, 'name': f'u{i}', 'mode': mode, 'read': read, 'payload': None, 'deps': sh})
    return {'nodes': nodes, 'requested': [], 'lab': {}}


TYPE_NAMES = sorted({t for _, t, _, _, _ in UNIVERSE})


class Session:
    """Applies operations to a real Lab and to the dictionary model; each op returns a list of findings."""

    def __init__(self, storage_kind: str):
        self.kind = storage_kind
        self.dir = tempfile.mkdtemp(prefix='c08-', dir=os.environ.get('VERIF_SCRATCH'))
        self.obs = os.path.join(self.dir, 'obs')
        os.makedirs(self.obs)
        self.spec = universe_spec()
        self.built = specs.Built(self.spec)
        self.model: dict[int, object] = {}
        self.meta: dict[int, object] = {}
        self.step = 0
        self.storage = None
        self.new_lab()

    def make_storage(self):
        if self.kind == 'none':
            return None
        p = os.path.join(self.dir, 'store')
        if self.kind == 'local':
            return p
        return storages.make(self.kind, p)

    def new_lab(self) -> list:
        self.storage = self.make_storage()
        self.lab = labtech.Lab(storage=self.storage, runner_backend='serial', notebook=False)
        return []

    def close(self):
        if self.kind.startswith('fsspec') and self.storage is not None:
            storages.cleanup(self.kind, self.storage)
        shutil.rmtree(self.dir, ignore_errors=True)

    # -- operations -------------------------------------------------------------------------------
    def run(self, subset, bust, fa, ff, backend, schedule, via_run_task: bool = False) -> list:
        out = []
        self.step += 1
        nonce = f'run{self.step}'
        context = {'fa': fa, 'ff': ff, 'nonce': nonce}
        spec = {**self.spec, 'requested': [{'ref': i, 'fresh': False} for i in subset]}
        ex = refmodel.evaluate(spec, self.model, context=context, bust=bust, storage_null=(self.kind == 'none'))
        tasks = [self.built.shared[i] for i in subset]
        trace_file = os.path.join(self.obs, 'trace')
        if os.path.exists(trace_file):
            os.remove(trace_file)
        os.environ['VERIF_OBS_DIR'] = self.obs
        if backend == 'controlled':
            rb = ControlledBackend(Control(Chooser(schedule)))
        else:
            rb = backend
        # same Storage object as the session's Lab (what a user who keeps one storage/Lab around has)
        lab = labtech.Lab(storage=self.lab._storage if self.kind != 'none' else None,
                          runner_backend=rb, context=context, notebook=False, max_workers=2)
        try:
            if via_run_task and len(tasks) == 1 and ex.status.get(subset[0]) in ('ok', 'loaded'):
                # the single-task convenience entry point ("supports the same keyword arguments as run_tasks")
                res = {tasks[0]: lab.run_task(tasks[0], bust_cache=bust, disable_progress=True, disable_top=True)}
            else:
                res = lab.run_tasks(tasks, bust_cache=bust, disable_progress=True, disable_top=True)
        except Exception as e:
            from pbt.oracles import exc_site, exc_text
            return [core.Finding(f'C08:run_tasks-raised:{type(e).__name__}@{exc_site(e)}', exc_text(e))]
        finally:
            os.environ.pop('VERIF_OBS_DIR', None)
        want = [(f'u{i}', v) for i, v in ex.returned(spec)]
        got = [(t.name, v) for t, v in res.items()]
        if got != want:
            out.append(core.Finding('C08:run-returned-other-than-the-model', f'{got!r} vs {want!r}'[:600]))
        executed = sorted(r[1] for r in vu.read_trace(self.obs) if r[0] == 'S')
        want_exec = sorted(f'u{i}' for i in ex.executed)
        if executed != want_exec:
            out.append(core.Finding('C08:run-executed-other-than-the-model' + (':bust_cache' if bust else ''), f'executed {executed}, model {want_exec}'))
        requested = set(subset)
        for i in ex.loaded:
            # the requested objects are the ones labtech marks in this call
            if i in requested and ex.status.get(i) == 'loaded' and self.meta.get(i) is not None and self.built.shared[i].result_meta != self.meta[i]:
                out.append(core.Finding('C08:loaded-result_meta-is-not-the-stored-one',
                                        f'u{i}: {self.built.shared[i].result_meta} vs recorded {self.meta[i]}'))
        for i in ex.executed:
            if ex.status[i] == 'ok' and i in ex.new_model:
                # the execution may have marked a nested (fresh) instance rather than the shared one: the newest mark is this run's
                marks = [t.result_meta for t in self.built.instances[i] if t.result_meta is not None and t.result_meta.start is not None]
                self.meta[i] = max(marks, key=lambda m: m.start) if marks else None
        self.model = ex.new_model
        return out

    def uncache(self, subset, other_lab: bool = False) -> list:
        lab = self.lab
        if other_lab and self.kind != 'none':
            # another Lab object on the same storage removes the entries (a second notebook / script); the session's long-lived Lab,
            # which has already looked at them, must see that
            lab = labtech.Lab(storage=self.lab._storage if self.kind != 'local' else self.storage, runner_backend='serial', notebook=False)
        try:
            lab.uncache_tasks([self.built.shared[i] for i in subset])
        except Exception as e:
            from pbt.oracles import exc_site, exc_text
            return [core.Finding(f'C08:uncache_tasks-raised:{type(e).__name__}@{exc_site(e)}', exc_text(e))]
        for i in subset:
            self.model.pop(i, None)
        return []

    def query_cached_tasks(self, type_names) -> list:
        types = [vu.NODE_TYPES[n] for n in type_names]
        try:
            got = list(self.lab.cached_tasks(types))
        except Exception as e:
            from pbt.oracles import exc_site, exc_text
            return [core.Finding(f'C08:cached_tasks-raised:{type(e).__name__}@{exc_site(e)}', exc_text(e))]
        got_keys = sorted((type(t).__name__, t.name, t.cache_key) for t in got)
        want = sorted((self.built.nodes[i]['type'], f'u{i}', self.built.shared[i].cache_key) for i in self.model
                      if self.built.nodes[i]['type'] in type_names)
        out = []
        if got_keys != want:
            out.append(core.Finding('C08:cached_tasks-disagrees-with-the-model', f'{got_keys} vs {want}'))
        else:
            for t in got:
                i = int(t.name[1:])
                if not (t == self.built.shared[i]):
                    out.append(core.Finding('C08:cached_tasks-returned-unequal-task', repr(t)[:200]))
                if self.meta.get(i) is not None and t.result_meta != self.meta[i]:
                    out.append(core.Finding('C08:cached_tasks-result_meta-is-not-the-stored-one', f'u{i}: {t.result_meta} vs recorded {self.meta[i]}'))
        return out

    def invariant(self) -> list:
        out = []
        for i, task in self.built.shared.items():
            try:
                c = self.lab.is_cached(task)
            except Exception as e:
                out.append(core.Finding(f'C08:is_cached-raised:{type(e).__name__}', repr(e)[:300]))
                continue
            if c != (i in self.model):
                out.append(core.Finding('C08:is_cached-disagrees-with-the-model', f'u{i} ({self.built.nodes[i]["type"]}): is_cached={c}, model={i in self.model}'))
        try:
            keys = sorted(self.lab._storage.find_keys())
        except Exception as e:
            from pbt.oracles import exc_site
            out.append(core.Finding(f'C08:find_keys-raised:{type(e).__name__}@{exc_site(e)}', repr(e)[:300]))
            return out
        want = sorted(self.built.shared[i].cache_key for i in self.model)
        if keys != want:
            out.append(core.Finding('C08:storage-keys-disagree-with-the-model', f'{keys} vs {want}'))
        return out

    def apply(self, op: list) -> list:
        kind = op[0]
        if kind == 'run':
            f = self.run(*op[1:])
        elif kind == 'uncache':
            f = self.uncache(op[1], other_lab=(len(op) > 2 and bool(op[2])))
        elif kind == 'cached_tasks':
            f = self.query_cached_tasks(op[1])
        elif kind == 'new_lab':
            f = self.new_lab()
        elif kind == 'is_cached':
            f = []
        else:
            raise ValueError(op)
        return f + self.invariant()


def nontrivial(ops: list) -> bool:
    edges = {3, 5, 2, 4, 7, 8}     # nodes with dependencies
    state = 0
    for op in ops:
        if op[0] == 'run':
            touches_edge = any(i in edges for i in op[1])
            if state == 0 and touches_edge:
                state = 1
            elif state == 1 and op[2] and touches_edge:
                return True
            elif state == 2 and touches_edge:
                return True
        elif op[0] == 'uncache' and state == 1 and 0 < len(op[1]) < 9:
            state = 2
    return False


def replay_ops(storage_kind: str, ops: list) -> tuple[list, list]:
    s = Session(storage_kind)
    log = []
    try:
        for op in ops:
            f = s.apply(op)
            log.append({'op': op, 'model_after': sorted(s.model), 'findings': [x.signature for x in f]})
            if f:
                return f, log
        return [], log
    finally:
        s.close()


def make_machine(rec: core.Recorder, storage_kind: str, state: dict, backends):
    subsets = st.one_of(st.lists(st.integers(0, 8), min_size=1, max_size=1), st.lists(st.integers(0, 8), min_size=1, max_size=4, unique=True))

    class CacheMachine(RuleBasedStateMachine):
        def __init__(self):
            super().__init__()
            self.session = Session(storage_kind)
            self.ops: list = []

        def do(self, op):
            self.ops.append(op)
            findings = self.session.apply(op)
            bad = rec.triage('stateful:' + storage_kind, {'storage': storage_kind, 'ops': self.ops}, core.CaseResult(findings=findings),
                             state['session_known'])
            if bad:
                state['last'] = ({'storage': storage_kind, 'ops': list(self.ops)}, bad)
                raise core.PropertyViolation(bad[0].signature)

        @rule(subset=subsets, bust=st.booleans(), fa=st.booleans(), ff=st.booleans(), backend=st.sampled_from(backends),
              schedule=st.lists(st.integers(0, 7), max_size=12), via_run_task=st.booleans())
        def run(self, subset, bust, fa, ff, backend, schedule, via_run_task):
            self.do(['run', subset, bust, fa, ff, backend, schedule, via_run_task])

        @rule(subset=st.lists(st.integers(0, 8), min_size=1, max_size=5, unique=True), other_lab=st.booleans())
        def uncache(self, subset, other_lab):
            self.do(['uncache', subset, other_lab])

        @rule(names=st.lists(st.sampled_from(TYPE_NAMES), min_size=1, max_size=4, unique=True))
        def cached_tasks(self, names):
            self.do(['cached_tasks', names])

        @rule()
        def new_lab(self):
            self.do(['new_lab'])

        def teardown(self):
            self.session.close()
            res = core.CaseResult(nontrivial=nontrivial(self.ops), labels=(f'storage={storage_kind}', f'steps={min(len(self.ops), 30) // 5 * 5}+'),
                                  summary={'ops': self.ops[:12]})
            rec.case('stateful:' + storage_kind, {'storage': storage_kind, 'ops': self.ops}, res)

    return CacheMachine


def plan(tier: str) -> list[dict]:
    q = tier == 'quick'
    jobs = []
    for i, kind in enumerate(['local', 'local', 'local', 'local', 'fsspec_local', 'fsspec_local', 'fsspec_local', 'fsspec_memory',
                              'fsspec_memory', 'none', 'local', 'fsspec_local', 'local', 'fsspec_memory', 'local', 'fsspec_local']):
        fork = i % 4 == 0 and kind != 'fsspec_memory'
        jobs.append({'engine': 'stateful', 'storage': kind, 'n': (25 if fork else 150) if q else (300 if fork else 2500), 'steps': 12 if q else 30,
                     'fork': fork, 'hashseed': i % 8})
    return jobs


def run_job(rec: core.Recorder, job: dict, seed: int) -> None:
    kind = job['storage']
    backends = ['serial', 'controlled', 'controlled'] + (['fork'] if job['fork'] else [])
    state = {'last': None, 'session_known': set()}
    for rnd in range(3):
        state['last'] = None
        machine = make_machine(rec, kind, state, backends)
        try:
            run_state_machine_as_test(hypothesis.seed(core.derive_seed(seed, kind, rnd))(machine),
                                      settings=core.hyp_settings(job['n'], shrink=True, stateful_step_count=job['steps']))
        except core.PropertyViolation:
            case, bad = state['last']
            # re-run the shrunk op list outside Hypothesis to attach the step log
            _, log = replay_ops(case['storage'], case['ops'])
            rec.violation('stateful:' + kind, case, bad, {'log': log})
            state['session_known'].update(f.signature for f in bad)
            continue
        except Exception as ex:
            if state['last'] is not None:
                case, bad = state['last']
                rec.violation('stateful:' + kind, case, bad, {'error': repr(ex)[:300]}, flaky=True)
                state['session_known'].update(f.signature for f in bad)
                continue
            raise
        break


def replay(record: dict) -> core.CaseResult:
    case = record['case']
    findings, log = replay_ops(case['storage'], case['ops'])
    return core.CaseResult(findings=findings, summary={'log': log})
