"""C05 - runnable work is started whenever capacity is free (maximal parallelism)."""
from __future__ import annotations

from pbt import core, dagprop, oracles, specs
from pbt.props import c04

LEVEL = 'exploration'
RULE = ('Same generator family as C04 (limits often not binding, chains hanging off wide layers, max_workers=1 with '
        'max_parallel=1, dying tasks). ControlledRunner: at every Runner.wait() call the submitted set is maximal - no needed, '
        'unsubmitted task has all dependencies handed back and its type below max_parallel (any maximal choice accepted). Gated '
        'fork/spawn: at every resting point (a polling round that yielded nothing while every gate is closed and no cache load '
        'or released task is outstanding) the number of tasks inside run() must reach min(max_workers, submitted-unfinished); not '
        'reaching it counts only after >= 10 further idle polling rounds and >= 20 s (normal: < 50 ms). Non-trivial = a resting '
        'point where a task unblocked by the previous completion batch is running, or where a queued task took a freed slot. '
        'Distinct = hash of (engine, spec). Engine after-abort: run 1 aborts (continue_on_failure=False) with tasks of limited types in flight, run 2 in the same process (same or new Lab) must '
        'again use all free capacity (same oracle on run 2). Engine fork+linger: a task whose run() has returned but whose process stays alive (non-daemon helper thread) until a task made runnable by its completion '
        'has started; violation if that does not happen within 6 s, three executions in a row. Engine fork+stagger: k = 6-8 gated tasks fill max_workers with up to k-1 tasks queued behind them (or dependents of the first, '
        'with spare slots); a helper thread releases the k one by one every 0.4 s - the first optionally dies outright - while the runner is polled with the 0.5 s '
        'timeout Lab itself uses; just before each release (from the third on) the number of queued tasks inside run() is compared with the capacity freed by the '
        'steps released at least 0.4 s earlier (normal latency < 50 ms). Violation only if the count falls short at EVERY sampling instant (>= 4, spanning >= 1.2 s) '
        'in three consecutive executions of the case. Non-trivial there = every stagger case.')
ASSUMPTIONS = ['the 20 s patience is a pass-only margin: normal start-up latency is < 50 ms (fork) / < 1 s (spawn)',
               'fork+stagger: freed capacity staying unused for >= 0.4 s at every one of >= 4 consecutive sampling instants, three executions in a '
               'row, is taken as "waits for unrelated tasks to finish" (normal start latency < 50 ms)']


def check(spec: dict) -> core.CaseResult:
    obs, ex, g = dagprop.run_spec(spec, gated=spec.get('gated', False))
    findings, nt = oracles.c05_maximal(spec, obs, ex, dagprop.CPU)
    f = specs.features(spec)
    labels = dagprop.base_labels(spec, f, g)
    labels.append(f'rest_points={min(sum(1 for e in obs.events if e[0] == "rest"), 5)}')
    return dagprop.result(obs, findings, nt, labels, hang_is_violation=True, prop='C05')


def judge_obs(case: dict, obs) -> core.CaseResult:
    ex = oracles.expect_for(case, obs)
    findings, nt = oracles.c05_maximal(case, obs, ex, dagprop.CPU)
    return core.CaseResult(findings=findings, nontrivial=nt, labels=('exhaustive-small',), summary=None)


def stagger_strategy():
    from hypothesis import strategies as st

    @st.composite
    def gen(draw):
        k = draw(st.integers(6, 8))
        dependent = draw(st.integers(0, 3)) == 0   # the probes depend on the first released step (spare slots) / are queued behind max_workers
        first_dies = (not dependent) and draw(st.integers(0, 2)) > 0      # the first released step is killed outright instead of finishing
        nodes = [{'id': i, 'type': draw(st.sampled_from(['NN', 'N'])), 'name': f's{i}', 'mode': 'ok', 'read': True, 'payload': i, 'deps': {'s': None}}
                 for i in range(k)]
        order = list(draw(st.permutations(list(range(k)))))
        if first_dies:
            nodes[order[0]]['mode'] = draw(st.sampled_from(['kill9', 'exit0']))
        n_probe = draw(st.integers(1, 2)) if dependent else draw(st.integers(k - 2, k - 1))
        for j in range(n_probe):
            deps = {'list': [{'ref': order[0], 'fresh': False}]} if dependent else {'s': None}
            nodes.append({'id': k + j, 'type': 'NN', 'name': f'q{j}', 'mode': 'ok', 'read': True, 'payload': 0, 'deps': deps})
        lab = {'backend': 'fork', 'max_workers': k + n_probe if dependent else k, 'continue_on_failure': True, 'bust_cache': False,
               'storage': draw(st.sampled_from(['local', 'none'])), 'displays': False, 'context': {}}
        return {'nodes': nodes, 'requested': [{'ref': i, 'fresh': False} for i in range(k + n_probe)], 'lab': lab, 'pre_cached': [],
                'schedule': [], 'stagger': {'k': k, 'order': order, 'interval': 0.4, 'dependent': dependent, 'first_dies': first_dies,
                                            'probes': [f'q{j}' for j in range(n_probe)]}}
    return gen()


def stagger_once(spec: dict):
    import threading
    import time

    from pbt import dagrun
    from pbt.universe import vu
    sg = spec['stagger']
    steps = [f's{i}' for i in sg['order']]
    st_ = {'armed': False, 'done': False, 'samples': None}

    def hook(spy, blocked, unfinished):
        spy.hold_gates = True
        if not st_['armed']:
            st_['armed'] = True
            if not set(steps) <= set(blocked):
                # not every step is inside run() yet (C05's resting-point clause judges that elsewhere): keep things moving
                spy._release(sorted(blocked))
                st_['done'] = True
                return
            spy.poll_timeout = 0.5      # the timeout Lab.run_tasks itself passes to Runner.wait()
            st_['samples'] = []

            def drive():
                for i, n in enumerate(steps):
                    if i:
                        time.sleep(sg['interval'])
                    if i >= 2:
                        # steps 0..i-1 were released at least one interval ago: each has freed a worker slot (or made the probes runnable)
                        started = {r[1] for r in vu.read_trace(spy.ctl.obs_dir) if r[0] == 'S'}
                        have = sum(1 for q in sg['probes'] if q in started)
                        want = len(sg['probes']) if sg['dependent'] else min(len(sg['probes']), i)
                        st_['samples'].append((i, want, have))
                    spy.ctl.log('release', [n], 'stagger')
                    spy._release([n])
                st_['done'] = True
            threading.Thread(target=drive, daemon=True).start()
        elif st_['done'] and blocked:
            spy._release(sorted(blocked))

    obs = dagrun.execute_case(spec, gated=True, rest_hook=hook, deadline_s=90)
    return obs, st_['samples']


def check_stagger(spec: dict) -> core.CaseResult:
    lagging_runs = []
    obs = None
    for attempt in range(3):
        obs, samples = stagger_once(spec)
        if obs.timeout:
            return dagprop.result(obs, [], False, ['engine=stagger'], hang_is_violation=True, prop='C05')
        if not samples:
            return core.CaseResult(labels=('engine=stagger', 'stagger-not-armed'), summary=obs.summary())
        if not all(have < want for _, want, have in samples):
            break
        lagging_runs.append(samples)
    sg = spec['stagger']
    findings = []
    if len(lagging_runs) == 3:
        span = (sg['k'] - 3) * sg['interval']
        findings.append(core.Finding('C05:fork:runnable-task-waits-for-unrelated-tasks-to-finish',
                                     f'at every one of the {len(lagging_runs[0])} sampling instants (spanning {span:.1f} s, each >= {sg["interval"]} s after the '
                                     f'completion that freed the capacity) fewer queued tasks were inside run() than free capacity allowed '
                                     f'(step, allowed, inside): {lagging_runs[0]}; 3 executions in a row'))
    labels = ['engine=stagger', f'k={sg["k"]}', f'dependent={sg["dependent"]}', f'first_dies={sg.get("first_dies", False)}',
              f'attempts={len(lagging_runs) + (0 if findings else 1)}']
    return core.CaseResult(findings=findings, nontrivial=True, labels=tuple(labels), summary=obs.summary())


def linger_strategy():
    """A task whose run() has returned but whose process lives on (a non-daemon helper thread) until a task that its completion
    makes runnable has started."""
    from hypothesis import strategies as st

    @st.composite
    def gen(draw):
        dependent = draw(st.booleans())
        n_q = draw(st.integers(1, 3))
        n_other = draw(st.integers(0, 2))
        qnames = [f'q{j}' for j in range(n_q)]
        nodes = [{'id': 0, 'type': draw(st.sampled_from(['NN', 'N1', 'Z'])), 'name': 'p', 'mode': 'linger', 'read': True, 'payload': qnames, 'deps': {'s': None}}]
        for j in range(n_q):
            nodes.append({'id': len(nodes), 'type': draw(st.sampled_from(['NN', 'N2'])), 'name': qnames[j], 'mode': 'ok', 'read': draw(st.booleans()), 'payload': j,
                          'deps': {'list': [{'ref': 0, 'fresh': False}]} if dependent else {'s': None}})
        for j in range(n_other):
            nodes.append({'id': len(nodes), 'type': 'NN', 'name': f'o{j}', 'mode': 'ok', 'read': True, 'payload': j, 'deps': {'s': None}})
        # dependent: spare workers; otherwise everything else is queued behind the single worker that p occupies first
        lab = {'backend': 'fork', 'max_workers': draw(st.sampled_from([2, 3, None])) if dependent else 1, 'continue_on_failure': True, 'bust_cache': False,
               'storage': draw(st.sampled_from(['local', 'none'])), 'displays': draw(st.booleans()), 'context': {}}
        order = [0] + list(range(1, len(nodes))) if not dependent else list(draw(st.permutations(list(range(len(nodes))))))
        return {'nodes': nodes, 'requested': [{'ref': i, 'fresh': False} for i in order], 'lab': lab, 'pre_cached': [], 'schedule': [], 'linger': True,
                'dependent': dependent}
    return gen()


def check_linger(spec: dict) -> core.CaseResult:
    from pbt import dagrun
    timeouts = 0
    obs = None
    for attempt in range(3):
        obs = dagrun.execute_case(spec, deadline_s=60)
        if obs.timeout:
            return dagprop.result(obs, [], False, ['engine=linger'], hang_is_violation=True, prop='C05')
        if not any(r[0] == 'M' and len(r) > 1 and r[1] == 'linger-timeout' for r in obs.trace):
            break
        timeouts += 1
    findings = []
    if timeouts == 3:
        from pbt.universe import vu
        findings.append(core.Finding('C05:fork:runnable-task-waits-for-a-finished-tasks-process-to-exit',
                                     f'p has returned its result, yet none of {spec["nodes"][0]["payload"]} was started within {vu.LINGER_S} s while '
                                     f'p\'s process was still alive (normal: < 50 ms); 3 executions in a row'))
    return core.CaseResult(findings=findings, nontrivial=True, labels=('engine=linger', f'dependent={spec["dependent"]}', f'attempts={min(timeouts + 1, 3)}'),
                           summary=obs.summary())


def abort_spec(backend: str):
    """Run 1 aborts (continue_on_failure=False, a failing task) while tasks of max_parallel-limited types are still in flight;
    run 2 (same Lab object or a new one, same process) requests other tasks of those types."""
    from hypothesis import strategies as st

    @st.composite
    def gen(draw):
        k = draw(st.integers(3, 7))
        nodes = [{'id': 0, 'type': 'NN', 'name': 'n0', 'mode': 'raise:ValueError', 'read': True, 'payload': None, 'deps': {'s': None}}]
        for i in range(1, k + 1):
            nodes.append({'id': i, 'type': draw(st.sampled_from(['N1', 'N2', 'N2', 'N3'])), 'name': f'n{i}', 'mode': 'ok', 'read': True, 'payload': i,
                          'deps': {'s': None}})
        first = sorted(set(draw(st.lists(st.integers(1, k), min_size=1, max_size=k))))
        second = sorted(set(draw(st.lists(st.integers(1, k), min_size=2, max_size=k))))
        order = draw(st.permutations([0] + first))
        return {'nodes': nodes, 'requested': [{'ref': i, 'fresh': False} for i in order],
                'lab': {'backend': backend, 'max_workers': draw(st.sampled_from([2, 3, 4, None])), 'continue_on_failure': False, 'bust_cache': False,
                        'storage': draw(st.sampled_from(['local', 'none'])), 'displays': False, 'context': {}},
                'pre_cached': [], 'schedule': draw(st.lists(st.integers(0, 7), max_size=12)),
                'second': {'same_lab': draw(st.booleans()), 'bust': False, 'requested': second}}
    return gen()


def check_after_abort(spec: dict) -> core.CaseResult:
    from pbt import dagrun
    second = spec['second']
    obs = dagrun.execute_case(spec, second=second)
    ex1 = oracles.expect_for(spec, obs)
    findings = []
    nt = False
    if obs.second is not None:
        spec2 = {**spec, 'requested': [{'ref': i, 'fresh': False} for i in second['requested']], 'lab': {**spec['lab'], 'continue_on_failure': True}}
        ex2 = oracles.expect_second(spec, obs, ex1, second)
        o2 = obs.second
        if o2.outcome is None or getattr(o2, 'timeout', False):
            findings.append(core.Finding('C05:run-after-aborted-run:run-did-not-terminate', oracles.exc_text(o2.exc) if o2.exc is not None else ''))
        else:
            f2, nt = oracles.c05_maximal(spec2, o2, ex2, dagprop.CPU)
            findings += [core.Finding(f.signature.replace('C05:', 'C05:run-after-aborted-run:'), f.detail) for f in f2]
            if o2.outcome == 'raise' and isinstance(o2.exc, BaseException) and type(o2.exc).__name__ == 'HarnessTimeout':
                findings.append(core.Finding('C05:run-after-aborted-run:run-did-not-terminate', oracles.exc_text(o2.exc)))
    labels = [f'backend={spec["lab"]["backend"]}', 'after-abort', f'run1={obs.outcome}', f'second:same_lab={second["same_lab"]}']
    return dagprop.result(obs, findings, obs.outcome == 'raise' and obs.second is not None, labels, hang_is_violation=True, prop='C05')


def plan(tier: str) -> list[dict]:
    q = tier == 'quick'
    jobs = list(dagprop.std_plan(tier, controlled=(8, 150, 2500), serial=(1, 40, 800), fork=(0, 0, 0), spawn=(0, 0, 0),
                                 gated_fork=(4, 12, 400), gated_spawn=(1, 3, 60))) + dagprop.exhaustive_jobs(tier, 4)
    jobs += [{'engine': 'executor-machine', 'n': 12 if q else 400, 'steps': 14 if q else 30, 'hashseed': i} for i in range(2)]
    jobs += [{'engine': 'after-abort:controlled', 'n': 80 if q else 2500, 'hashseed': 5}, {'engine': 'after-abort:fork', 'n': 8 if q else 300, 'hashseed': 6}]
    jobs += [{'engine': 'fork+gated:cpu-default', 'n': 2 if q else 30, 'hashseed': 1}]
    jobs += [{'engine': 'fork+linger', 'n': 10 if q else 300, 'hashseed': 7}]
    jobs += [{'engine': 'fork+stagger', 'n': 6 if q else 60, 'hashseed': 3 + i} for i in range(1 if q else 2)]
    return jobs


def run_job(rec: core.Recorder, job: dict, seed: int) -> None:
    if job['engine'].startswith('after-abort:'):
        b = job['engine'].split(':')[1]
        core.run_hypothesis(rec, job['engine'], abort_spec(b), check_after_abort, max_examples=job['n'], seed=seed, shrink=(b == 'controlled'))
        return
    if job['engine'] == 'fork+gated:cpu-default':
        core.run_hypothesis(rec, job['engine'], c04.cpu_default_spec(), check, max_examples=job['n'], seed=seed, shrink=False)
        return
    if job['engine'] == 'fork+linger':
        core.run_hypothesis(rec, 'fork+linger', linger_strategy(), check_linger, max_examples=job['n'], seed=seed, shrink=False)
        return
    if job['engine'] == 'fork+stagger':
        core.run_hypothesis(rec, 'fork+stagger', stagger_strategy(), check_stagger, max_examples=job['n'], seed=seed, shrink=False)
        return
    if job['engine'] == 'executor-machine':
        from pbt import execmachine
        execmachine.run_machines(rec, 'executor-machine', 'C05:', job['n'], job['steps'], seed)
        return
    if job['engine'] == 'exhaustive-small':
        dagprop.run_exhaustive_job(rec, job, judge_obs, failing=False, cached=False)
        return
    eng, gated = dagprop.backend_of(job['engine'])
    core.run_hypothesis(rec, job['engine'], c04.strategy(eng, gated, seed), check, max_examples=job['n'], seed=seed,
                        shrink=(eng == 'controlled' or rec.tier == 'thorough'))


def replay(record: dict) -> core.CaseResult:
    if 'stagger' in record['case']:
        return check_stagger(record['case'])
    if record['case'].get('linger'):
        return check_linger(record['case'])
    if 'second' in record['case']:
        return check_after_abort(record['case'])
    return check(record['case'])
