"""C05 - runnable work is started whenever capacity is free (maximal parallelism)."""
from __future__ import annotations

from pbt import core, dagprop, oracles, specs
from pbt.props import c04

LEVEL = 'exploration'
RULE = ('Same generator family as C04 (limits often not binding, chains hanging off wide layers, max_workers=1 with '
        'max_parallel=1, dying tasks). ControlledRunner: at every Runner.wait() call the submitted set is maximal - no needed, '
        'unsubmitted task has all dependencies handed back and its type below max_parallel (any maximal choice accepted). Gated '
        'fork/spawn: at every resting point (a polling round that yielded nothing while every gate is closed and no cache load '
        'or released task is outstanding) the number of tasks inside run() must reach min(max_workers, submitted-unfinished); not '
        'reaching it counts only after >= 10 further idle polling rounds and >= 20 s (normal: < 50 ms). Non-trivial = a resting '
        'point where a task unblocked by the previous completion batch is running, or where a queued task took a freed slot. '
        'Distinct = hash of (engine, spec).')
ASSUMPTIONS = ['the 20 s patience is a pass-only margin: normal start-up latency is < 50 ms (fork) / < 1 s (spawn)']


def check(spec: dict) -> core.CaseResult:
    obs, ex, g = dagprop.run_spec(spec, gated=spec.get('gated', False))
    findings, nt = oracles.c05_maximal(spec, obs, ex, dagprop.CPU)
    f = specs.features(spec)
    labels = dagprop.base_labels(spec, f, g)
    labels.append(f'rest_points={min(sum(1 for e in obs.events if e[0] == "rest"), 5)}')
    return dagprop.result(obs, findings, nt, labels, hang_is_violation=True, prop='C05')


def judge_obs(case: dict, obs) -> core.CaseResult:
    ex = oracles.expect_for(case, obs)
    findings, nt = oracles.c05_maximal(case, obs, ex, dagprop.CPU)
    return core.CaseResult(findings=findings, nontrivial=nt, labels=('exhaustive-small',), summary=None)


def plan(tier: str) -> list[dict]:
    q = tier == 'quick'
    jobs = list(dagprop.std_plan(tier, controlled=(8, 150, 2500), serial=(1, 40, 800), fork=(0, 0, 0), spawn=(0, 0, 0),
                                 gated_fork=(4, 12, 400), gated_spawn=(1, 3, 60))) + dagprop.exhaustive_jobs(tier, 4)
    jobs += [{'engine': 'executor-machine', 'n': 12 if q else 400, 'steps': 14 if q else 30, 'hashseed': i} for i in range(2)]
    return jobs


def run_job(rec: core.Recorder, job: dict, seed: int) -> None:
    if job['engine'] == 'executor-machine':
        from pbt import execmachine
        execmachine.run_machines(rec, 'executor-machine', 'C05:', job['n'], job['steps'], seed)
        return
    if job['engine'] == 'exhaustive-small':
        dagprop.run_exhaustive_job(rec, job, judge_obs, failing=False, cached=False)
        return
    eng, gated = dagprop.backend_of(job['engine'])
    core.run_hypothesis(rec, job['engine'], c04.strategy(eng, gated, seed), check, max_examples=job['n'], seed=seed,
                        shrink=(eng == 'controlled' or rec.tier == 'thorough'))


def replay(record: dict) -> core.CaseResult:
    return check(record['case'])
