"""C20 - the task diagram shows every reachable type and relationship."""
from __future__ import annotations

import re

from hypothesis import strategies as st

from labtech.diagram import build_task_diagram

from pbt import core, specs
from pbt.universe import vd

LEVEL = 'exploration'
RULE = ('Task graphs over seven typed task types (one of them a subclass of another task type, inheriting parameters): nodes with scalar parameters and task-holding parameters whose value is a bare '
        'task, or a list/tuple/dict nest (depth 1-4) of tasks of several types and scalars; shared sub-tasks; the same parameter '
        'holding a single task in one instance and a collection in another; heterogeneous instances of one type (a later instance '
        'has a dependency the first lacks); 1-6 top-level tasks in generated order; all four directions. The Mermaid text is '
        'parsed back into class blocks and arrows. Oracle (reference walks the SPEC, not labtech\'s traversal): exactly one block '
        'per reachable type and no other; each block lists every dataclass field once and exactly one run() line carrying the '
        'return annotation when there is one; arrows as a multiset == {(dependent type, parameter, dependency type)} each exactly '
        'once; "many" iff in at least one task where that combination occurs the parameter holds a collection (where the '
        'per-combination and the per-parameter reading of the statement differ, either marking is accepted); output identical '
        'across two calls and across shard processes with different PYTHONHASHSEED; parsed sets invariant under permutation of the '
        'input list. Non-trivial = >= 3 reachable types, a dependency at container depth >= 2, and one (type, parameter) seen both '
        'single and as a collection. Distinct = hash of spec.')
ASSUMPTIONS = ['the parser accepts exactly the line shapes build_task_diagram documents/emits (class X / X : type name / X : run() T / A <-- ["many" ]B: param)']


def parse(text: str):
    lines = text.split('\n')
    problems = []
    if not lines or lines[0] != 'classDiagram':
        problems.append('first line is not classDiagram')
    direction = None
    classes: dict[str, dict] = {}
    dup_classes = []
    edges = []
    for ln in lines[1:]:
        s = ln.strip()
        if not s:
            continue
        m = re.fullmatch(r'direction (\w+)', s)
        if m:
            direction = m.group(1)
            continue
        m = re.fullmatch(r'class (\w+)', s)
        if m:
            if m.group(1) in classes:
                dup_classes.append(m.group(1))
            classes.setdefault(m.group(1), {'params': [], 'run': []})
            continue
        m = re.fullmatch(r'(\w+) <-- ("many" )?(\w+): (\w+)', s)
        if m:
            edges.append((m.group(1), m.group(4), m.group(3), bool(m.group(2))))
            continue
        m = re.fullmatch(r'(\w+) : run\(\)( (.+))?', s)
        if m:
            classes.setdefault(m.group(1), {'params': [], 'run': []})['run'].append(m.group(3))
            continue
        m = re.fullmatch(r'(\w+) : (.+) (\w+)', s)
        if m:
            classes.setdefault(m.group(1), {'params': [], 'run': []})['params'].append((m.group(3), m.group(2)))
            continue
        problems.append(f'unparsed line {s!r}')
    return direction, classes, dup_classes, edges, problems


def build_tasks(spec: dict):
    objs = {}
    nodes = {n['id']: n for n in spec['nodes']}

    def shape(sh):
        if 'ref' in sh:
            return objs[sh['ref']]
        if 's' in sh:
            return sh['s']
        if 'list' in sh:
            return [shape(x) for x in sh['list']]
        if 'tuple' in sh:
            return tuple(shape(x) for x in sh['tuple'])
        return {k: shape(v) for k, v in sh['dict'].items()}

    for n in spec['nodes']:
        kw = {f: shape(sh) for f, sh in n['fields'].items()}
        if n['type'] == 'DA':
            kw = {'x': n['id']}
        elif n['type'] in vd.STR_FIELD:
            kw[vd.STR_FIELD[n['type']]] = f'text-{n["id"]}-{n["type"]}'
        objs[n['id']] = vd.TYPES[n['type']](**kw)
    return objs


def reference(spec: dict):
    nodes = {n['id']: n for n in spec['nodes']}
    reach = set()
    stack = list(spec['top'])
    while stack:
        i = stack.pop()
        if i in reach:
            continue
        reach.add(i)
        for sh in nodes[i]['fields'].values():
            stack.extend(r['ref'] for r in specs.shape_refs(sh))
    types = {nodes[i]['type'] for i in reach}
    combos: dict[tuple, bool] = {}        # (T, param, U) -> many under the per-combination reading
    param_coll: dict[tuple, bool] = {}    # (T, param) -> parameter holds a collection in some task of T
    for i in reach:
        n = nodes[i]
        for f, sh in n['fields'].items():
            is_coll = 'ref' not in sh and 's' not in sh
            if specs.shape_refs(sh) or is_coll:
                param_coll[(n['type'], f)] = param_coll.get((n['type'], f), False) or is_coll
            for r in specs.shape_refs(sh):
                key = (n['type'], f, nodes[r['ref']]['type'])
                combos[key] = combos.get(key, False) or is_coll
    return reach, types, combos, param_coll


def check(spec: dict) -> core.CaseResult:
    findings = []
    objs = build_tasks(spec)
    tasks = [objs[i] for i in spec['top']]
    direction = spec['direction']
    text = build_task_diagram(tasks, direction=direction)
    text2 = build_task_diagram([objs[i] for i in spec['top']], direction=direction)
    if text != text2:
        findings.append(core.Finding('C20:output-differs-between-two-calls', ''))
    d, classes, dups, edges, problems = parse(text)
    reach, types, combos, param_coll = reference(spec)
    if problems:
        findings.append(core.Finding('C20:unparseable-output', '; '.join(problems)[:400]))
    if d != direction:
        findings.append(core.Finding('C20:direction-not-emitted', f'{d} != {direction}'))
    if dups:
        findings.append(core.Finding('C20:type-has-more-than-one-class-block', str(dups)))
    if set(classes) - types:
        findings.append(core.Finding('C20:block-for-unreachable-type', str(sorted(set(classes) - types))))
    if types - set(classes):
        findings.append(core.Finding('C20:reachable-type-has-no-block', str(sorted(types - set(classes)))))
    for t in sorted(types & set(classes)):
        names = [p[0] for p in classes[t]['params']]
        if sorted(names) != sorted(vd.ALL_FIELDS[t]):
            findings.append(core.Finding('C20:block-does-not-list-every-parameter-once', f'{t}: {names} vs {vd.ALL_FIELDS[t]}'))
        runs = classes[t]['run']
        if len(runs) != 1:
            findings.append(core.Finding('C20:block-lacks-single-run-line', f'{t}: {runs}'))
        elif (runs[0] or None) != vd.RETURNS[t]:
            findings.append(core.Finding('C20:run-signature-wrong', f'{t}: run() {runs[0]!r} expected {vd.RETURNS[t]!r}'))
    got = {}
    for (a, p, b, many) in edges:
        got.setdefault((a, p, b), []).append(many)
    for k, lst in got.items():
        if len(lst) > 1:
            findings.append(core.Finding('C20:relationship-emitted-more-than-once', f'{k} x{len(lst)}'))
        if k not in combos:
            findings.append(core.Finding('C20:arrow-for-relationship-that-does-not-occur', str(k)))
    ambiguous = 0
    for k, many in combos.items():
        if k not in got:
            findings.append(core.Finding('C20:relationship-missing', f'{k} (many={many})'))
            continue
        if many != param_coll[(k[0], k[1])]:
            ambiguous += 1        # the two readings of the statement differ: accept either marking
            continue
        if got[k][0] != many:
            findings.append(core.Finding('C20:cardinality-wrong', f'{k}: marked many={got[k][0]}, expected {many}'))
    # metamorphic: permutation of the input list leaves the parsed sets unchanged
    perm = [objs[i] for i in spec['perm']]
    d2, classes2, dups2, edges2, _ = parse(build_task_diagram(perm, direction=direction))
    norm = lambda cl, ed: (sorted((t, sorted(v['params']), v['run']) for t, v in cl.items()), sorted(ed))
    if norm(classes, edges) != norm(classes2, edges2):
        findings.append(core.Finding('C20:output-depends-on-input-order', f'{sorted(edges)} vs {sorted(edges2)}'))
    seen = set()
    findings = [f for f in findings if not (f.signature in seen or seen.add(f.signature))]
    nodes = {n['id']: n for n in spec['nodes']}
    depth2 = any(specs.shape_depth(sh) >= 2 for i in reach for sh in nodes[i]['fields'].values())
    both = False
    seen_single, seen_coll = set(), set()
    hetero = False
    for i in reach:
        for f, sh in nodes[i]['fields'].items():
            if specs.shape_refs(sh):
                (seen_single if 'ref' in sh else seen_coll).add((nodes[i]['type'], f))
    both = bool(seen_single & seen_coll)
    nt = len(types) >= 3 and depth2 and both
    labels = [f'types={len(types)}', f'direction={direction}']
    if depth2:
        labels.append('dependency_depth>=2')
    if both:
        labels.append('param_single_and_collection')
    if ambiguous:
        labels.append('cardinality_readings_differ')
    return core.CaseResult(findings=findings, nontrivial=nt, labels=tuple(labels), summary={'diagram': text[:1500]})


@st.composite
def diagram_spec(draw):
    n = draw(st.integers(1, 9))
    nodes = []
    for i in range(n):
        t = 'DA' if i == 0 else draw(st.sampled_from(['DA', 'DB', 'DC', 'DD', 'DE', 'DF', 'DC', 'DD', 'DG']))
        fields = {}
        avail = list(range(i))
        for f in vd.TASK_FIELDS[t]:
            form = draw(st.integers(0, 5))
            if not avail or form == 0:
                sh = {'s': draw(st.one_of(st.none(), st.integers(0, 3), st.just('s')))}
                if draw(st.integers(0, 3)) == 0:
                    sh = {'list': []} if draw(st.booleans()) else {'dict': {}}
            elif form in (1, 2):
                sh = {'ref': draw(st.sampled_from(avail)), 'fresh': False}
            else:
                sh = draw(specs.dep_shape(avail, max_refs=4, dup_bias=True))
                if 'ref' in sh and draw(st.booleans()):
                    sh = {'list': [sh]}       # a collection holding a single task is still "many"
            sh = _strip_fresh(sh)
            fields[f] = sh
        nodes.append({'id': i, 'type': t, 'fields': fields})
    top = draw(st.lists(st.integers(0, n - 1), min_size=1, max_size=6))
    if draw(st.booleans()) and (n - 1) not in top:
        top.append(n - 1)
    perm = draw(st.permutations(top))
    return {'nodes': nodes, 'top': top, 'perm': list(perm), 'direction': draw(st.sampled_from(['BT', 'TB', 'RL', 'LR']))}


def _strip_fresh(sh):
    if 'ref' in sh:
        return {'ref': sh['ref'], 'fresh': False}
    if 's' in sh:
        return sh
    if 'list' in sh:
        return {'list': [_strip_fresh(x) for x in sh['list']]}
    if 'tuple' in sh:
        return {'tuple': [_strip_fresh(x) for x in sh['tuple']]}
    return {'dict': {k: _strip_fresh(v) for k, v in sh['dict'].items()}}


def xproc(rec: core.Recorder, n: int) -> None:
    import hashlib
    import os

    import hypothesis
    from hypothesis import given
    collected = []

    @hypothesis.seed(core.derive_seed(rec.seed, 'c20-xproc'))
    @core.hyp_settings(n, shrink=False)
    @given(diagram_spec())
    def collect(sp):
        collected.append(sp)
    collect()
    for sp in collected:
        objs = build_tasks(sp)
        text = build_task_diagram([objs[i] for i in sp['top']], direction=sp['direction'])
        rec.xproc[core.case_hash(sp)] = {'value': hashlib.sha1(text.encode()).hexdigest(), 'case': sp,
                                          'signature': 'C20:output-differs-across-processes',
                                          'hashseed': os.environ.get('PYTHONHASHSEED')}


def plan(tier: str) -> list[dict]:
    q = tier == 'quick'
    return [{'engine': 'diagram', 'n': 800 if q else 12000, 'hashseed': i % 8} for i in range(16)]


def run_job(rec: core.Recorder, job: dict, seed: int) -> None:
    xproc(rec, 250 if rec.tier == 'quick' else 2000)
    core.run_hypothesis(rec, 'diagram', diagram_spec(), check, max_examples=job['n'], seed=seed)


def replay(record: dict) -> core.CaseResult:
    if record.get('engine') == 'cross-process':
        sp = record['case']
        return check(sp)
    return check(record['case'])
