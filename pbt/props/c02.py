"""C02 - a task never starts before all of its dependencies have finished; reads see the real result or raise."""
from __future__ import annotations

from pbt import core, dagprop, oracles, specs

LEVEL = 'exploration'
RULE = ('C01 DAG generator plus failing dependencies (raise / killed worker) with strict-reader dependents; run under '
        'the schedule-controlling Runner (completion batches drawn from the schedule) and the real serial/fork/spawn '
        'backends. Oracle over the history: (a) every submit of t for execution comes after wait() handed back every '
        'task in t\'s parameters (found by the spec walker, not labtech\'s search); (b) every run()-start record comes '
        'after the end record of every executed dependency (O_APPEND trace = linearisation across processes); (c) every '
        'dependency read inside run() yields the digest of that dependency\'s value in this run (reference evaluator), and '
        'for a failed dependency raises labtech TaskError; (d) a failed dependency does not abort the run in the caller. Engine "two-runs": the same task objects run twice, a context '
        'flag making some dependencies fail only in the second call - reads must reflect the second call. '
        'Non-trivial = a dependency nested at container depth >= 2, or a completion batch of >= 2, or a failing dependency '
        'with a reader. Distinct = canonical hash of (engine, spec).')
ASSUMPTIONS = ['single os.write on an O_APPEND descriptor orders trace records across processes',
               'real-backend interleavings are sampled; the ControlledRunner owns the interleaving']


def check(spec: dict) -> core.CaseResult:
    obs, ex, gated = dagprop.run_spec(spec)
    findings = oracles.c02_ordering(spec, obs, ex)
    f = specs.features(spec)
    nodes = {n['id']: n for n in spec['nodes']}
    failing_dep_read = any(ex.why.get(i, '').startswith('dep:') for i in ex.status)
    multi_batch = any(ev[0] == 'batch' and len(ev[1]) >= 2 for ev in obs.events)
    nt = f['n_closure'] >= 2 and (f['max_depth'] >= 2 or multi_batch or failing_dep_read)
    labels = dagprop.base_labels(spec, f, gated)
    if multi_batch:
        labels.append('batch>=2')
    if failing_dep_read:
        labels.append('failed_dependency_read')
    return dagprop.result(obs, findings, nt, labels, hang_is_violation=False, prop='C02')


def judge_obs(case: dict, obs) -> core.CaseResult:
    ex = oracles.expect_for(case, obs)
    multi = any(ev[0] == 'batch' and len(ev[1]) >= 2 for ev in obs.events)
    return core.CaseResult(findings=oracles.c02_ordering(case, obs, ex), nontrivial=multi or len(case['nodes']) >= 3, labels=('exhaustive-small',), summary=None)


def check_two_runs(spec: dict) -> core.CaseResult:
    """The same task objects run twice (same Lab or a new Lab on the same storage); in the second call a context flag makes some
    tasks fail that succeeded in the first, and everything is re-executed (bust_cache or uncached types): every read inside run()
    must reflect THIS call - the new value, or TaskError for a dependency that failed this time."""
    from pbt import dagrun
    second = spec['second']
    obs = dagrun.execute_case(spec, second=second)
    ex1 = oracles.expect_for(spec, obs)
    findings = oracles.c02_ordering(spec, obs, ex1)
    failed2 = False
    aborted1 = obs.outcome == 'raise' and not obs.timeout
    if aborted1:
        findings = []      # an aborted first run is C10's business; here it only sets the scene for the second run
    if obs.second is not None and (obs.outcome == 'return' or (aborted1 and 'continue_on_failure' in second)):
        spec2 = spec if 'continue_on_failure' not in second else {**spec, 'lab': {**spec['lab'], 'continue_on_failure': second['continue_on_failure']}}
        ex2 = oracles.expect_second(spec, obs, ex1, second)
        failed2 = any(w.startswith('dep:') for w in ex2.why.values())
        if obs.second.outcome == 'return':
            for f in oracles.c02_ordering(spec2, obs.second, ex2):
                findings.append(core.Finding(f.signature.replace('C02:', 'C02:second-run:' + ('after-aborted-run:' if aborted1 else '')), f.detail))
    f = specs.features(spec)
    labels = [f'backend={spec["lab"]["backend"]}', 'two-runs', f'second:same_lab={second.get("same_lab")}'] + (['dependency_fails_only_in_second_run'] if failed2 else [])
    if aborted1:
        labels.append('first_run_aborted')
    return dagprop.result(obs, findings, failed2 or f['n_closure'] >= 3, labels, prop='C02')


def plan(tier: str) -> list[dict]:
    q = tier == 'quick'
    jobs = dagprop.std_plan(tier, controlled=(9, 150, 2500), serial=(1, 60, 1200), fork=(2, 25, 500), spawn=(1, 5, 100))
    # focused fan-in cases (failing leaves read by a parent) for the backend that copies dependency results into each child
    jobs += [{'engine': 'spawn:fanin', 'n': 7 if q else 120, 'hashseed': i} for i in range(3)]
    jobs += [{'engine': 'fork:fanin', 'n': 25 if q else 400, 'hashseed': 4}]
    jobs += [{'engine': 'two-runs:serial', 'n': 100 if q else 3000, 'hashseed': 5}, {'engine': 'two-runs:fork', 'n': 14 if q else 400, 'hashseed': 6}]
    jobs += [{'engine': 'after-abort:serial', 'n': 100 if q else 3000, 'hashseed': 7}, {'engine': 'after-abort:fork', 'n': 10 if q else 300, 'hashseed': 0}]
    return list(jobs) + dagprop.exhaustive_jobs(tier, 4)


def run_job(rec: core.Recorder, job: dict, seed: int) -> None:
    if job['engine'] == 'exhaustive-small':
        dagprop.run_exhaustive_job(rec, job, judge_obs, failing=True, cached=False)
        return
    eng = job['engine']
    if eng.startswith('two-runs:'):
        from hypothesis import strategies as st
        b = eng.split(':')[1]
        strat = st.builds(lambda sp, same, bust: {**sp, 'second': {'same_lab': same, 'bust': bust, 'context_extra': {'fa': True}}},
                          specs.dag_spec(max_nodes=7, backends=(b,), fail_modes=['flag:fa', 'flag:fa', 'raise:ValueError'], fail_rate=30,
                                         types=['NN', 'N1', 'Z', 'Z', 'N2'], contexts=False, storages=('local', 'none')),
                          st.booleans(), st.sampled_from([True, True, False]))
        core.run_hypothesis(rec, eng, strat, check_two_runs, max_examples=job['n'], seed=seed, shrink=(b == 'serial' or rec.tier == 'thorough'))
        return
    if eng.startswith('after-abort:'):
        # run 1 aborts (continue_on_failure=False) while results are still held for unfinished dependents; run 2, a new Lab in the same
        # process with continue_on_failure=True, re-executes everything with a flag that makes some dependencies fail this time
        from hypothesis import strategies as st
        b = eng.split(':')[1]
        strat = st.builds(lambda sp, bust: {**sp, 'second': {'same_lab': False, 'bust': bust, 'context_extra': {'fa': True}, 'continue_on_failure': True}},
                          specs.dag_spec(min_nodes=3, max_nodes=7, backends=(b,), fail_modes=['flag:fa', 'flag:fa', 'raise:ValueError'], fail_rate=45,
                                         types=['NN', 'Z', 'Z', 'N2'], contexts=False, storages=('local', 'none'), continue_on_failure=(False,),
                                         pre_cache=False, bust=False, req_many=True),
                          st.sampled_from([True, True, False]))
        core.run_hypothesis(rec, eng, strat, check_two_runs, max_examples=job['n'], seed=seed, shrink=(b == 'serial' or rec.tier == 'thorough'))
        return
    if eng.endswith(':fanin'):
        core.run_hypothesis(rec, eng, specs.fanin_spec(eng.split(':')[0]), check, max_examples=job['n'], seed=seed, shrink=(rec.tier == 'thorough'))
        return
    fail = ['raise:ValueError', 'raise:CustomErr'] + ([] if eng == 'serial' else ['kill9'])
    strat = specs.dag_spec(max_nodes=5 if eng == 'spawn' else 9, backends=(eng,), fail_modes=fail, fail_rate=20,
                           dup_bias=(seed % 3 == 0), bust=True, corrupt_rate=15)
    core.run_hypothesis(rec, eng, strat, check, max_examples=job['n'], seed=seed,
                        shrink=(eng == 'controlled' or rec.tier == 'thorough'))


def replay(record: dict) -> core.CaseResult:
    case = record['case']
    return check_two_runs(case) if 'second' in case else check(case)
