"""C11 - run_tasks always terminates; it never deadlocks or spins."""
from __future__ import annotations

from pbt import core, dagprop, oracles, specs
from pbt.props import c04

LEVEL = 'exploration'
RULE = ('Union of the C04/C05/C10 generators (limits incl. max_workers=1 with max_parallel=1, failing tasks, workers killed by '
        'SIGKILL/SIGTERM, non-reading and strict-reader dependents, continue_on_failure on/off), progress/monitor displays on and '
        'off. ControlledRunner: LOGICAL hang detection, no clock - Runner.wait() called while nothing is in flight or queued, or '
        'more than 4n+12 wait() calls, is a violation ("waiting while tasks remain but none is executing or runnable"). Real '
        'serial/fork/spawn backends (plain and gated): per-case watchdog (20 s serial, 60 s fork, 150 s spawn; normal < 1 s) plus '
        'the same "waiting with nothing outstanding" detector on the pass-through spy. Non-trivial = the case contains a death or '
        'failure whose dependents must still be unblocked, or a binding max_workers=1. Distinct = hash of (engine, spec).')
ASSUMPTIONS = ['liveness is only observed: "no hang found on the explored cases"; the logical detector is exact for the coordinator under the ControlledRunner',
               'watchdog margins are >= 50x the normal duration']


def check(spec: dict) -> core.CaseResult:
    obs, ex, g = dagprop.run_spec(spec, gated=spec.get('gated', False))
    findings = oracles.c11_terminates(spec, obs, ex)
    f = specs.features(spec)
    failed_with_dependents = any(ex.status[i] == 'failed' and any(i in ex.deps_in_run.get(p, []) for p in ex.status) for i in ex.status)
    nt = failed_with_dependents or (spec['lab'].get('max_workers') == 1 and f['n_closure'] >= 3)
    labels = dagprop.base_labels(spec, f, g)
    if spec['lab'].get('displays'):
        labels.append('displays_on')
    if failed_with_dependents:
        labels.append('failed_node_with_dependents')
    return dagprop.result(obs, findings, nt, labels, hang_is_violation=True, prop='C11')


def judge_obs(case: dict, obs) -> core.CaseResult:
    ex = oracles.expect_for(case, obs)
    findings = oracles.c11_terminates(case, obs, ex)
    if obs.timeout:
        findings.append(core.Finding('C11:run-did-not-terminate', oracles.exc_text(obs.exc)))
    failing = any(s == 'failed' for s in ex.status.values())
    return core.CaseResult(findings=findings, nontrivial=failing or case['lab']['max_workers'] == 1, labels=('exhaustive-small',), summary=None, stop_search=obs.timeout)


def plan(tier: str) -> list[dict]:
    q = tier == 'quick'
    jobs = list(dagprop.std_plan(tier, controlled=(7, 150, 2500), serial=(1, 60, 1000), fork=(2, 20, 400), spawn=(1, 5, 80),
                                 gated_fork=(2, 12, 300), gated_spawn=(1, 3, 40))) + dagprop.exhaustive_jobs(tier, 4)
    jobs += [{'engine': 'kill-focus:fork', 'n': 16 if q else 400, 'hashseed': i} for i in range(2)]
    jobs += [{'engine': 'kill-focus:spawn', 'n': 3 if q else 40, 'hashseed': 3}]
    jobs += [{'engine': 'control-flow-exceptions', 'hashseed': 5}]
    jobs += [{'engine': 'executor-machine', 'n': 12 if q else 400, 'steps': 14 if q else 30, 'hashseed': 4}]
    return jobs


def strategy(eng: str, gated: bool, seed: int):
    from hypothesis import strategies as st
    from pbt.universe import vu
    fail = ['raise:ValueError', 'raise:UnpicklableErr', 'exit', 'baseexc'] + vu.CONTROL_FLOW_MODES + ([] if eng == 'serial' else ['kill9', 'kill15', 'exit0'] * 3)
    if seed % 2 == 0:
        s = specs.dag_spec(min_nodes=2, max_nodes=5 if eng == 'spawn' else 10, backends=(eng,), fail_modes=fail, fail_rate=30,
                           noread_rate=30, continue_on_failure=(True, True, False), max_workers=(1, 1, 2, 3, None),
                           types=['N1', 'N2', 'NN', 'Z1', 'Z'])
    else:
        s = specs.dag_spec(min_nodes=3, max_nodes=6 if eng == 'spawn' else 12, backends=(eng,), fail_modes=fail, fail_rate=25,
                           wide=True, req_many=True, types=['N1', 'N2', 'N3', 'NN', 'Z1', 'Z2'], noread_rate=30, max_workers=(1, 1, 2, 3, None),
                           contexts=False)

    def fin(sp, disp, top):
        sp = {**sp, 'gated': gated}
        sp['lab'] = {**sp['lab'], 'displays': disp, 'top': top}
        return sp
    from pbt import dagrun
    return st.builds(fin, s, st.booleans(), dagrun.top_strategy())


def kill_focus(backend: str):
    """Workers that die without reporting, with more submitted tasks than workers: the executor must notice the death, free the
    slot and start what is queued, whatever else is (not) going on."""
    from hypothesis import strategies as st

    @st.composite
    def gen(draw):
        k = draw(st.integers(2, 6))
        nodes = []
        n_kill = 0
        for i in range(k):
            mode = draw(st.sampled_from(['ok', 'ok', 'kill9', 'kill15', 'exit0', 'raise:ValueError']))
            if i == k - 1 and n_kill == 0:
                mode = draw(st.sampled_from(['kill9', 'kill15', 'exit0']))
            n_kill += mode.startswith('kill') or mode == 'exit0'
            nodes.append({'id': i, 'type': draw(st.sampled_from(['NN', 'N1', 'Z'])), 'name': f'n{i}', 'mode': mode, 'read': True, 'payload': None,
                          'deps': {'s': None}})
        order = draw(st.permutations(list(range(k))))
        if draw(st.booleans()):
            nodes.append({'id': k, 'type': 'NN', 'name': f'n{k}', 'mode': 'ok', 'read': draw(st.booleans()), 'payload': None,
                          'deps': {'list': [{'ref': j, 'fresh': False} for j in order[:2]]}})
            order = list(order) + [k]
        return {'nodes': nodes, 'requested': [{'ref': i, 'fresh': False} for i in order],
                'lab': {'backend': backend, 'max_workers': draw(st.sampled_from([1, 1, 2])), 'continue_on_failure': True, 'bust_cache': False,
                        'storage': draw(st.sampled_from(['local', 'none'])), 'displays': draw(st.booleans()), 'context': {}},
                'pre_cached': [], 'schedule': draw(st.lists(st.integers(0, 7), max_size=10)), 'gated': draw(st.booleans())}
    return gen()


def run_job(rec: core.Recorder, job: dict, seed: int) -> None:
    if job['engine'] == 'executor-machine':
        from pbt import execmachine
        execmachine.run_machines(rec, 'executor-machine', 'C11:', job['n'], job['steps'], seed)
        return
    if job['engine'] == 'control-flow-exceptions':
        from pbt.props import c10
        core.run_cases(rec, 'control-flow-exceptions', [c for c in c10.control_flow_cases() if c['lab']['continue_on_failure']], check)
        return
    if job['engine'].startswith('kill-focus'):
        core.run_hypothesis(rec, job['engine'], kill_focus(job['engine'].split(':')[1]), check, max_examples=job['n'], seed=seed, shrink=False)
        return
    if job['engine'] == 'exhaustive-small':
        dagprop.run_exhaustive_job(rec, job, judge_obs, failing=True, cached=False)
        return
    eng, gated = dagprop.backend_of(job['engine'])
    core.run_hypothesis(rec, job['engine'], strategy(eng, gated, seed), check, max_examples=job['n'], seed=seed,
                        shrink=(eng == 'controlled' or rec.tier == 'thorough'))


def replay(record: dict) -> core.CaseResult:
    return check(record['case'])
