"""Manual (unregistered) engine: real SIGINT delivered asynchronously by another thread while the caller sits in the real
runner's wait() and the blocked tasks are released at the same moment.  Usage:  ./check is NOT involved;
    PYTHONPATH=/repo:/verif /venv/bin/python -m pbt.props.c14_async [n_cases] [seed]
Not registered because an asynchronous KeyboardInterrupt may equally land in the harness' own interpreter internals (lost in a
finalizer, SystemError in Hypothesis' buffers, once a segfault), i.e. it can fail without a labtech defect."""
import collections
import logging
import os
import sys
import tempfile


def main():
    n = int(sys.argv[1]) if len(sys.argv) > 1 else 50
    seed = int(sys.argv[2]) if len(sys.argv) > 2 else 1
    os.environ.setdefault('VERIF_SCRATCH', tempfile.mkdtemp(prefix='c14-async-'))
    import labtech
    labtech.logger.handlers = [logging.NullHandler()]
    from pbt import core
    from pbt.props import c14
    rec = core.Recorder('C14', 'quick', seed)
    core.run_hypothesis(rec, 'signals-async', c14.signal_case('fork', only_async=True), c14.check_signal, max_examples=n, seed=seed, shrink=False, rounds=1)
    print('cases', rec.evaluations, 'labels', dict(collections.Counter(rec.labels)))
    for v in rec.violations:
        print('FINDING', v['signature'], v['detail'][:300])


if __name__ == '__main__':
    main()
