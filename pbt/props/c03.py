"""C03 - each distinct task runs at most once, and only if its result is needed."""
from __future__ import annotations

from pbt import core, dagprop, oracles, specs

LEVEL = 'exploration'
RULE = ('C01 DAG generator biased to duplication (fresh equal instances across parents, inside one parent, among the '
        'requested tasks; repeated references), arbitrary pre-cached subsets, requested subsets, bust_cache on/off; '
        'ControlledRunner schedules plus sampled serial/fork/spawn runs. Oracle: multiset of run()-start records == '
        'reference executed set, each once; submit_task(use_cache=True) calls == reference loaded set, each once; nothing '
        'submitted or executed outside the requested closure or only below cached tasks; every caller-side instance among '
        'the requested tasks and (recursively) the parameters of executed tasks has result_meta set iff its node '
        'succeeded, and equal instances agree. Engine "two-runs": a second call on the same Lab (or a new Lab sharing the Storage object; LocalStorage and FsspecStorage) must load what the first cached. Engine "after-abort": a run that aborts (continue_on_failure=False, more ready tasks than '
        'workers) followed by a second run on the SAME Lab requesting something else - that second run must touch nothing outside its '
        'own closure. Non-trivial = at least one duplicate equal instance AND (non-empty proper '
        'pre-cached subset OR a cached node with an uncached dependency). Distinct = hash of (engine, spec).')
ASSUMPTIONS = ['loads are observed as Runner.submit_task(use_cache=True) calls (API level), executions as run() records']


def check(spec: dict) -> core.CaseResult:
    obs, ex, gated = dagprop.run_spec(spec)
    findings = oracles.c03_once_only_if_needed(spec, obs, ex)
    if obs.outcome == 'raise':
        findings.append(core.Finding(f'C03:all-succeed-but-raised:{type(obs.exc).__name__}@{oracles.exc_site(obs.exc)}', oracles.exc_text(obs.exc)))
    f = specs.features(spec)
    nodes = {n['id']: n for n in spec['nodes']}
    cached_with_uncached_dep = any(
        ex.status.get(i) == 'loaded' and any(j not in obs.model_before for j in specs.direct_deps(nodes[i]))
        for i in ex.status)
    nt = f['fresh_dups'] > 0 and (f['pre_cached_proper'] or cached_with_uncached_dep)
    labels = dagprop.base_labels(spec, f, gated)
    if cached_with_uncached_dep:
        labels.append('cached_node_with_uncached_dependency')
    return dagprop.result(obs, findings, nt, labels, hang_is_violation=False, prop='C03')


def judge_obs(case: dict, obs) -> core.CaseResult:
    ex = oracles.expect_for(case, obs)
    f = specs.features(case)
    return core.CaseResult(findings=oracles.c03_once_only_if_needed(case, obs, ex), nontrivial=f['pre_cached_proper'], labels=('exhaustive-small',), summary=None)


def check_after_abort(spec: dict) -> core.CaseResult:
    """Run 1 aborts (continue_on_failure=False, a failing task, more ready tasks than workers); run 2 on the SAME Lab requests
    something else: nothing outside run 2's closure may be executed or loaded by it."""
    from pbt import dagrun
    second = spec['second']
    obs = dagrun.execute_case(spec, second=second)
    ex1 = oracles.expect_for(spec, obs)
    findings = []
    if obs.second is not None:
        spec2 = {**spec, 'requested': [{'ref': i, 'fresh': False} for i in second['requested']]}
        ex2 = oracles.expect_second(spec, obs, ex1, second)
        o2 = obs.second
        o2.outcome = o2.outcome or 'raise'
        for f in oracles.c03_once_only_if_needed(spec2, o2, ex2):
            if f.signature not in ('C03:executed-outside-closure', 'C03:executed-more-than-once', 'C03:unneeded-task-submitted', 'C03:submitted-more-than-once'):
                continue      # only the 'nothing outside the closure, nothing twice' clauses are judged for the run after an abort
            findings.append(core.Finding(f.signature.replace('C03:', 'C03:run-after-aborted-run:'), f.detail))
    labels = [f'backend={spec["lab"]["backend"]}', 'after-abort', f'run1={obs.outcome}']
    return dagprop.result(obs, findings, obs.outcome == 'raise', labels, prop='C03')


def check_two_runs(spec: dict) -> core.CaseResult:
    """A second run_tasks call on the same Lab object (or a new Lab sharing the Storage object), nothing busted: what the first call
    cached is loaded, nothing of it is executed again, nothing below a cached task is touched."""
    from pbt import dagrun
    second = spec['second']
    obs = dagrun.execute_case(spec, second=second)
    ex1 = oracles.expect_for(spec, obs)
    # the result_meta clauses look at the live task objects, which by now carry the marks of BOTH calls: not judged here
    meta_clauses = ('C03:instances-disagree-on-result_meta', 'C03:instance-not-marked-with-result_meta', 'C03:failed-task-instance-has-result_meta')
    findings = [f for f in oracles.c03_once_only_if_needed(spec, obs, ex1) if f.signature not in meta_clauses]
    nt = False
    if obs.second is not None and obs.outcome == 'return' and obs.second.outcome == 'return':
        ex2 = oracles.expect_second(spec, obs, ex1, second)
        nt = bool(ex2.loaded)
        for f in oracles.c03_once_only_if_needed(spec, obs.second, ex2):
            if f.signature in meta_clauses:
                continue
            findings.append(core.Finding(f.signature.replace('C03:', 'C03:second-run:'), f.detail))
    labels = [f'backend={spec["lab"]["backend"]}', 'two-runs', f'storage={spec["lab"]["storage"]}', f'second:same_lab={second.get("same_lab")}']
    return dagprop.result(obs, findings, nt, labels, prop='C03')


def plan(tier: str) -> list[dict]:
    q = tier == 'quick'
    jobs = list(dagprop.std_plan(tier, controlled=(10, 150, 2500), serial=(1, 60, 1200), fork=(2, 25, 500), spawn=(1, 6, 120))) + dagprop.exhaustive_jobs(tier, 4)
    jobs += [{'engine': 'after-abort:fork', 'n': 20 if q else 500, 'hashseed': 3}, {'engine': 'after-abort:spawn', 'n': 5 if q else 80, 'hashseed': 4},
             {'engine': 'after-abort:controlled', 'n': 60 if q else 2000, 'hashseed': 5}]
    jobs += [{'engine': 'two-runs:fork', 'n': 16 if q else 400, 'hashseed': 6}, {'engine': 'two-runs:serial', 'n': 60 if q else 1500, 'hashseed': 7}]
    return jobs


def run_job(rec: core.Recorder, job: dict, seed: int) -> None:
    if job['engine'] == 'exhaustive-small':
        dagprop.run_exhaustive_job(rec, job, judge_obs, failing=False, cached=True)
        return
    eng = job['engine']
    if eng.startswith('two-runs:'):
        from hypothesis import strategies as st
        b = eng.split(':')[1]
        strat = st.builds(lambda sp, same: {**sp, 'second': {'same_lab': same, 'bust': False}},
                          specs.dag_spec(max_nodes=7, backends=(b,), dup_bias=True, bust=False, storages=('local', 'fsspec_local', 'fsspec_local')),
                          st.booleans())
        core.run_hypothesis(rec, eng, strat, check_two_runs, max_examples=job['n'], seed=seed, shrink=(b == 'serial' or rec.tier == 'thorough'))
        return
    if eng.startswith('after-abort:'):
        from hypothesis import strategies as st
        b = eng.split(':')[1]

        @st.composite
        def abort_spec(draw):
            k = draw(st.integers(2, 4))
            nodes = [{'id': 0, 'type': 'NN', 'name': 'n0', 'mode': 'raise:ValueError', 'read': True, 'payload': None, 'deps': {'s': None}}]
            for i in range(1, k + 1):
                nodes.append({'id': i, 'type': draw(st.sampled_from(['NN', 'N2', 'Z'])), 'name': f'n{i}', 'mode': 'ok', 'read': True, 'payload': i, 'deps': {'s': None}})
            order = draw(st.permutations(list(range(k + 1))))
            pos0 = draw(st.integers(0, 1))
            order = [0] + [i for i in order if i != 0] if pos0 == 0 else order
            return {'nodes': nodes, 'requested': [{'ref': i, 'fresh': False} for i in order],
                    'lab': {'backend': b, 'max_workers': draw(st.sampled_from([1, 1, 2])), 'continue_on_failure': False, 'bust_cache': False,
                            'storage': 'local', 'displays': False, 'context': {}},
                    'pre_cached': [], 'schedule': draw(st.lists(st.integers(0, 7), max_size=8)),
                    'second': {'same_lab': True, 'bust': False, 'requested': [draw(st.integers(1, k))]}}
        core.run_hypothesis(rec, eng, abort_spec(), check_after_abort, max_examples=job['n'], seed=seed, shrink=(b == 'controlled'))
        return
    strat = specs.dag_spec(max_nodes=5 if eng == 'spawn' else 9, backends=(eng,), dup_bias=True, bust=True, corrupt_rate=15)
    core.run_hypothesis(rec, eng, strat, check, max_examples=job['n'], seed=seed,
                        shrink=(eng == 'controlled' or rec.tier == 'thorough'))


def replay(record: dict) -> core.CaseResult:
    case = record['case']
    if 'second' in case and 'requested' not in case['second']:
        return check_two_runs(case)
    return check_after_abort(case) if 'second' in case else check(case)
