"""C03 - each distinct task runs at most once, and only if its result is needed."""
from __future__ import annotations

from pbt import core, dagprop, oracles, specs

LEVEL = 'exploration'
RULE = ('C01 DAG generator biased to duplication (fresh equal instances across parents, inside one parent, among the '
        'requested tasks; repeated references), arbitrary pre-cached subsets, requested subsets, bust_cache on/off; '
        'ControlledRunner schedules plus sampled serial/fork/spawn runs. Oracle: multiset of run()-start records == '
        'reference executed set, each once; submit_task(use_cache=True) calls == reference loaded set, each once; nothing '
        'submitted or executed outside the requested closure or only below cached tasks; every caller-side instance among '
        'the requested tasks and (recursively) the parameters of executed tasks has result_meta set iff its node '
        'succeeded, and equal instances agree. Non-trivial = at least one duplicate equal instance AND (non-empty proper '
        'pre-cached subset OR a cached node with an uncached dependency). Distinct = hash of (engine, spec).')
ASSUMPTIONS = ['loads are observed as Runner.submit_task(use_cache=True) calls (API level), executions as run() records']


def check(spec: dict) -> core.CaseResult:
    obs, ex, gated = dagprop.run_spec(spec)
    findings = oracles.c03_once_only_if_needed(spec, obs, ex)
    if obs.outcome == 'raise':
        findings.append(core.Finding(f'C03:all-succeed-but-raised:{type(obs.exc).__name__}@{oracles.exc_site(obs.exc)}', oracles.exc_text(obs.exc)))
    f = specs.features(spec)
    nodes = {n['id']: n for n in spec['nodes']}
    cached_with_uncached_dep = any(
        ex.status.get(i) == 'loaded' and any(j not in obs.model_before for j in specs.direct_deps(nodes[i]))
        for i in ex.status)
    nt = f['fresh_dups'] > 0 and (f['pre_cached_proper'] or cached_with_uncached_dep)
    labels = dagprop.base_labels(spec, f, gated)
    if cached_with_uncached_dep:
        labels.append('cached_node_with_uncached_dependency')
    return dagprop.result(obs, findings, nt, labels, hang_is_violation=False, prop='C03')


def judge_obs(case: dict, obs) -> core.CaseResult:
    ex = oracles.expect_for(case, obs)
    f = specs.features(case)
    return core.CaseResult(findings=oracles.c03_once_only_if_needed(case, obs, ex), nontrivial=f['pre_cached_proper'], labels=('exhaustive-small',), summary=None)


def plan(tier: str) -> list[dict]:
    return list(dagprop.std_plan(tier, controlled=(12, 150, 2500), serial=(1, 60, 1200), fork=(2, 25, 500), spawn=(1, 6, 120))) + dagprop.exhaustive_jobs(tier, 4)


def run_job(rec: core.Recorder, job: dict, seed: int) -> None:
    if job['engine'] == 'exhaustive-small':
        dagprop.run_exhaustive_job(rec, job, judge_obs, failing=False, cached=True)
        return
    eng = job['engine']
    strat = specs.dag_spec(max_nodes=5 if eng == 'spawn' else 9, backends=(eng,), dup_bias=True, bust=True)
    core.run_hypothesis(rec, eng, strat, check, max_examples=job['n'], seed=seed,
                        shrink=(eng == 'controlled' or rec.tier == 'thorough'))


def replay(record: dict) -> core.CaseResult:
    return check(record['case'])
