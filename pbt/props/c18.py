"""C18 - local storage never reads, writes or deletes outside its directory."""
from __future__ import annotations

import hashlib
import os
import shutil
import stat
import tempfile

from hypothesis import strategies as st

from pbt import core

LEVEL = 'exploration'
RULE = ('Sandbox = root/outside/{canary file, canary dir/file} + root/store/ with a generated pre-existing layout: key dirs with '
        'files and nested sub-dirs, a key that is a regular file, key-level symlinks to outside (dir, file, dangling, absolute, '
        'relative), to the storage dir itself, to a nested dir inside another key and to a sibling key, file-level symlinks inside '
        'key dirs to outside files/dirs (live and dangling), optionally a symlinked storage dir. Keys and filenames come from an '
        'adversarial grammar (empty, ".", "..", both separators, a/../b, absolute paths, names of existing symlinks/keys/files, '
        'NUL, newlines, unicode look-alike slashes, 300-char names) plus valid names. Sequences of 1-6 operations: exists, '
        'file_handle in modes r,w,a,x,rb,wb,ab,r+,w+ (followed by a read and/or write and close), delete, find_keys, and '
        'environment steps that turn a previously used key name into a symlink between two calls, or change the working directory (in a third of '
        'the cases the storage is given as a path RELATIVE to the working directory at construction; a tree with the same relative names exists under outside/). Oracle: full '
        'recursive snapshot (type, size, content hash, link target) before/after each operation; everything under outside/ must '
        'be byte-identical; inside store/ the only differences allowed are creation of the one key directory D = the direct child '
        'of the storage dir the key names, regular files directly inside D (file_handle), or removal of D and what is below it '
        '(delete); an operation that raises may have created at most the empty key directory; any data read through a returned '
        'handle must come from a file whose real path is directly inside D; exists/find_keys change nothing. Any exception type is '
        'an acceptable rejection. Non-trivial = the key or filename contains a separator, dot segment, absolute prefix or names a '
        'symlink. Distinct = hash of (layout, operations). A quarter of the cases hold a focused history: a key is used, '
        'its name becomes a symlink, the same key is used again on the same storage object. Thorough tier only: the same oracle inside an atheris/libFuzzer target (bytes '
        '-> layout bits + operations via FuzzedDataProvider, sandbox rebuilt per iteration, empty corpus, 4 x 150 s); its execution '
        'counts are reported under coverage.extra (they are not part of evaluations/distinct_nontrivial).')
ASSUMPTIONS = ['"the one the key names": for a key that is a symlink resolving to another direct child of the storage dir, that child is taken as the named directory',
               'mtime-only changes are ignored (creating a key directory legitimately touches the storage directory)']

CANARY = b'OUTSIDE-CANARY-5f3a'


# ---------------------------------------------------------------------------------------------------
# sandbox
# ---------------------------------------------------------------------------------------------------

def snapshot(root: str) -> dict:
    out = {}
    for dirpath, dirnames, filenames in os.walk(root, followlinks=False):
        for name in dirnames + filenames:
            p = os.path.join(dirpath, name)
            rel = os.path.relpath(p, root)
            stt = os.lstat(p)
            if stat.S_ISLNK(stt.st_mode):
                out[rel] = ('link', os.readlink(p))
            elif stat.S_ISDIR(stt.st_mode):
                out[rel] = ('dir',)
            else:
                with open(p, 'rb') as f:
                    data = f.read()
                out[rel] = ('file', len(data), hashlib.sha1(data).hexdigest())
    return out


LINKS_KEY = {
    'lnk_out_dir': '../outside/cdir',
    'lnk_out_file': '../outside/canary.txt',
    'lnk_dangling': '../outside/nothing',
    'lnk_abs': '@ABS@/outside/cdir',
    'lnk_self': '.',
    'lnk_parent': '..',
    'lnk_nested': 'k1/sub',
    'lnk_sibling': 'k2',
    'lnk_plainfile': 'plainfile',
    'lnk_gitignore': '.gitignore',
}
LINKS_FILE = {
    'flink_out': '../../outside/canary.txt',
    'flink_dangling': '../../outside/created.txt',
    'dlink_out': '../../outside/cdir',
    'flink_abs': '@ABS@/outside/canary.txt',
    'flink_sibling': '../k2/f.txt',
    'flink_inside': 'f.txt',
}


def build_sandbox(layout: dict) -> tuple[str, str]:
    root = tempfile.mkdtemp(prefix='c18-', dir=os.environ.get('VERIF_SCRATCH'))
    root = os.path.realpath(root)
    os.makedirs(os.path.join(root, 'outside', 'cdir'))
    with open(os.path.join(root, 'outside', 'canary.txt'), 'wb') as f:
        f.write(CANARY + b'-file')
    with open(os.path.join(root, 'outside', 'cdir', 'inner.txt'), 'wb') as f:
        f.write(CANARY + b'-inner')
    # a directory tree with the same relative names elsewhere: what a storage given as a RELATIVE path would hit after a chdir
    os.makedirs(os.path.join(root, 'outside', 'store', 'k1'))
    with open(os.path.join(root, 'outside', 'store', 'k1', 'f.txt'), 'wb') as f:
        f.write(CANARY + b'-same-relative-name')
    os.symlink('store', os.path.join(root, 'outside', 'store_link'))
    store = os.path.join(root, 'store')
    os.makedirs(store)
    for k in ('k1', 'k2'):
        if k in layout['keys']:
            os.makedirs(os.path.join(store, k))
            with open(os.path.join(store, k, 'f.txt'), 'wb') as f:
                f.write(b'inside-' + k.encode())
    if 'k1' in layout['keys']:
        os.makedirs(os.path.join(store, 'k1', 'sub'))
        with open(os.path.join(store, 'k1', 'sub', 'deep.txt'), 'wb') as f:
            f.write(b'deep')
    if layout.get('plainfile'):
        with open(os.path.join(store, 'plainfile'), 'wb') as f:
            f.write(b'plain')
    for name in layout['key_links']:
        os.symlink(LINKS_KEY[name].replace('@ABS@', root), os.path.join(store, name))
    for name in layout['file_links']:
        if 'k1' in layout['keys']:
            os.symlink(LINKS_FILE[name].replace('@ABS@', root), os.path.join(store, 'k1', name))
    storage_arg = store
    if layout.get('store_symlinked'):
        os.symlink('store', os.path.join(root, 'store_link'))
        storage_arg = os.path.join(root, 'store_link')
    return root, storage_arg


# ---------------------------------------------------------------------------------------------------
# the check
# ---------------------------------------------------------------------------------------------------

def named_dir(store_real: str, key: str):
    """D: the direct child of the storage dir that the key names (None if it names none)."""
    if not isinstance(key, str) or key == '' or '\x00' in key:
        return None
    try:
        p = os.path.realpath(os.path.join(store_real, key))
    except (OSError, ValueError):
        return None
    if os.path.dirname(p) == store_real and p != store_real:
        return p
    return None


def diff(before: dict, after: dict) -> list[str]:
    return sorted(k for k in set(before) | set(after) if before.get(k) != after.get(k))


def check(spec: dict) -> core.CaseResult:
    from labtech.storage import LocalStorage
    findings: list[core.Finding] = []
    root, storage_arg = build_sandbox(spec['layout'])
    nontrivial = False
    applied = []
    cwd0 = os.getcwd()
    try:
        store_real = os.path.join(root, 'store')
        if spec['layout'].get('relative'):
            # the README's form: Lab(storage='some_dir') - a path relative to the working directory at construction time
            os.chdir(root)
            storage_arg = os.path.basename(storage_arg)
        before_init = snapshot(root)
        storage = LocalStorage(storage_arg, with_gitignore=spec['layout'].get('gitignore', True))
        after_init = snapshot(root)
        for rel in diff(before_init, after_init):
            if rel != os.path.join('store', '.gitignore'):
                findings.append(core.Finding('C18:constructor-touched-unexpected-path', rel))
        for op in spec['ops']:
            kind = op['op']
            key = op.get('key')
            filename = op.get('filename')
            if kind == 'chdir':
                # the caller changes its working directory between two storage calls
                os.chdir(os.path.join(root, op['to']))
                applied.append(f'chdir({op["to"]!r})')
                nontrivial = nontrivial or bool(spec['layout'].get('relative'))
                continue
            if kind == 'plant':
                # the environment changes between two storage calls (done by the harness, not by labtech): the name of a key that
                # has been used before now is a symlink
                p = os.path.join(store_real, op['name'])
                try:
                    if os.path.islink(p) or os.path.isfile(p):
                        os.unlink(p)
                    elif os.path.isdir(p):
                        shutil.rmtree(p)
                    os.symlink(LINKS_KEY[op['as']].replace('@ABS@', root), p)
                    applied.append(f'plant({op["name"]!r} -> {LINKS_KEY[op["as"]]})')
                    nontrivial = True
                except OSError as ex:
                    applied.append(f'plant failed: {ex}')
                continue
            before = snapshot(root)
            D = named_dir(store_real, key) if kind != 'find_keys' else None
            raised = None
            read_data = None
            opened_real = None
            try:
                if kind == 'exists':
                    storage.exists(key)
                elif kind == 'find_keys':
                    storage.find_keys()
                elif kind == 'delete':
                    storage.delete(key)
                elif kind == 'file_handle':
                    mode = op['mode']
                    h = storage.file_handle(key, filename, mode=mode)
                    try:
                        try:
                            opened_real = os.path.realpath(h.name)
                        except Exception:
                            opened_real = None
                        if 'r' in mode or '+' in mode:
                            try:
                                if '+' in mode or 'r' in mode:
                                    read_data = h.read()
                            except Exception:
                                pass
                        if any(c in mode for c in 'wax+'):
                            try:
                                h.write(b'W-' + CANARY[:0] + b'data' if 'b' in mode else 'W-data')
                            except Exception:
                                pass
                    finally:
                        h.close()
            except BaseException as ex:     # any exception is an acceptable rejection
                if isinstance(ex, (KeyboardInterrupt, SystemExit)):
                    raise
                raised = ex
            after = snapshot(root)
            changed = diff(before, after)
            label = f'{kind}({key!r}' + (f', {filename!r}, {op.get("mode")!r}' if kind == 'file_handle' else '') + ')'
            applied.append(f'{label} -> {"raised " + type(raised).__name__ if raised is not None else "ok"}; changed={changed[:4]}')
            d_rel = os.path.relpath(D, root) if D else None
            for rel in changed:
                if rel == 'outside' or rel.startswith('outside' + os.sep):
                    findings.append(core.Finding(f'C18:{kind}-changed-something-outside-the-storage-directory', f'{label}: {rel}: {before.get(rel)} -> {after.get(rel)}'))
                    continue
                if kind in ('exists', 'find_keys'):
                    findings.append(core.Finding(f'C18:{kind}-changed-the-filesystem', f'{label}: {rel}'))
                    continue
                if d_rel is None:
                    findings.append(core.Finding(f'C18:{kind}-changed-a-path-although-the-key-names-no-direct-child',
                                                 f'{label}: {rel}: {before.get(rel)} -> {after.get(rel)}'))
                    continue
                if kind == 'delete':
                    if not (rel == d_rel or rel.startswith(d_rel + os.sep)):
                        findings.append(core.Finding('C18:delete-removed-something-other-than-the-key-directory', f'{label}: {rel}'))
                    continue
                # file_handle
                if rel == d_rel:
                    if not (before.get(rel) is None and after.get(rel) == ('dir',)):
                        findings.append(core.Finding('C18:file_handle-replaced-the-key-directory', f'{label}: {before.get(rel)} -> {after.get(rel)}'))
                    continue
                if os.path.dirname(rel) == d_rel:
                    if raised is not None:
                        findings.append(core.Finding('C18:file_handle-raised-but-left-a-file-behind', f'{label}: {rel}'))
                    elif before.get(rel, ('file',))[0] != 'file' or after.get(rel, ('file',))[0] != 'file':
                        findings.append(core.Finding('C18:file_handle-changed-a-non-regular-file', f'{label}: {rel}: {before.get(rel)} -> {after.get(rel)}'))
                    continue
                findings.append(core.Finding('C18:file_handle-changed-a-path-not-directly-inside-the-key-directory',
                                             f'{label}: {rel}: {before.get(rel)} -> {after.get(rel)}'))
            if kind == 'file_handle' and raised is None:
                if read_data is not None:
                    rb = read_data if isinstance(read_data, bytes) else read_data.encode('utf-8', 'replace')
                    if CANARY in rb:
                        findings.append(core.Finding('C18:file_handle-read-a-file-outside-the-storage-directory', f'{label} returned the canary'))
                if opened_real is not None and (D is None or os.path.dirname(opened_real) != D):
                    findings.append(core.Finding('C18:file_handle-opened-a-file-not-directly-inside-the-key-directory',
                                                 f'{label} opened {os.path.relpath(opened_real, root)}'))
            for s in (key, filename):
                if isinstance(s, str) and (any(c in s for c in '/\\') or s in ('.', '..') or s.startswith('lnk_') or s.startswith('flink_')
                                           or s.startswith('dlink_') or '..' in s):
                    nontrivial = True
    finally:
        os.chdir(cwd0)
        shutil.rmtree(root, ignore_errors=True)
    seen = set()
    findings = [f for f in findings if not (f.signature in seen or seen.add(f.signature))]
    labels = sorted({f'op={o["op"]}' for o in spec['ops']})
    if spec['layout'].get('relative'):
        labels.append('relative-storage-path')
    if any(o['op'] == 'plant' for o in spec['ops']) and any(o['op'] != 'plant' and o.get('key') == p_['name'] for p_ in spec['ops'] if p_['op'] == 'plant' for o in spec['ops']):
        labels.append('key-used-before-and-after-becoming-a-symlink')
    return core.CaseResult(findings=findings, nontrivial=nontrivial, labels=tuple(labels), summary={'ops': applied})


# ---------------------------------------------------------------------------------------------------
# generator
# ---------------------------------------------------------------------------------------------------

VALID_KEYS = ['k1', 'k2', 'newkey', 'pickle__T__abc', 'K-9_x']
ADVERSARIAL = ['', '.', '..', '/', '\\', 'a/b', 'a\\b', 'k1/sub', '../outside', '../outside/cdir', 'k1/../k2', '/etc', '/tmp/x', './k1',
               'k1/', '/', '~', '\x00', 'k\x00', 'a\nb', '∕etc', '／', 'x' * 300, ' ', 'k1/.', '....', '.hidden', 'plainfile',
               '.gitignore', 'store', '../store/k1', '..\\outside']
FILENAMES = ['f.txt', 'new.bin', 'data.pickle', 'metadata.json', 'sub', 'sub/deep.txt', '../f.txt', '../k2/f.txt', '../../outside/canary.txt',
             '/etc/passwd', '', '.', '..', 'a/../f.txt', './f.txt', 'f.txt/', '\x00', 'a\nb', 'x' * 300, '~', '..\\x']
MODES = ['r', 'w', 'a', 'x', 'rb', 'wb', 'ab', 'r+', 'w+', 'rb+', 'wb+']


def keys():
    return st.one_of(st.sampled_from(VALID_KEYS), st.sampled_from(sorted(LINKS_KEY)), st.sampled_from(ADVERSARIAL), st.text(max_size=5))


def filenames():
    return st.one_of(st.sampled_from(FILENAMES), st.sampled_from(sorted(LINKS_FILE)), st.sampled_from(ADVERSARIAL), st.text(max_size=5))


def op():
    return st.one_of(
        st.builds(lambda k: {'op': 'exists', 'key': k}, keys()),
        st.builds(lambda k: {'op': 'delete', 'key': k}, keys()),
        st.builds(lambda k, f, m: {'op': 'file_handle', 'key': k, 'filename': f, 'mode': m}, keys(), filenames(), st.sampled_from(MODES)),
        st.builds(lambda k, f, m: {'op': 'file_handle', 'key': k, 'filename': f, 'mode': m}, st.sampled_from(['k1', 'lnk_sibling', 'newkey']),
                  st.sampled_from(sorted(LINKS_FILE) + ['f.txt', 'new.bin']), st.sampled_from(MODES)),
        st.just({'op': 'find_keys'}),
        st.builds(lambda t: {'op': 'chdir', 'to': t}, st.sampled_from(['outside', 'outside', 'store', '.'])),
        st.builds(lambda n, a: {'op': 'plant', 'name': n, 'as': a}, st.sampled_from(['k1', 'k2', 'newkey', 'K-9_x']),
                  st.sampled_from(['lnk_out_dir', 'lnk_out_file', 'lnk_dangling', 'lnk_self', 'lnk_nested', 'lnk_abs'])),
    )


def layout():
    return st.builds(
        lambda keys_, kl, fl, pf, sl, gi, rel: {'keys': keys_, 'key_links': kl, 'file_links': fl, 'plainfile': pf, 'store_symlinked': sl, 'gitignore': gi,
                                                'relative': rel},
        st.sampled_from([['k1', 'k2'], ['k1'], ['k1', 'k2'], []]),
        st.lists(st.sampled_from(sorted(LINKS_KEY)), unique=True, max_size=len(LINKS_KEY)),
        st.lists(st.sampled_from(sorted(LINKS_FILE)), unique=True, max_size=len(LINKS_FILE)),
        st.booleans(), st.booleans(), st.booleans(), st.integers(0, 2).map(lambda i: i == 0))


def replant_ops():
    """Focused history on ONE storage object: a key is used successfully, then (done by the environment) its name becomes a symlink,
    then the same key is used again - a storage object that remembers what it found out about a key the first time must not act on
    that memory. Random operations may come before, between and after."""
    first = st.one_of(st.builds(lambda: {'op': 'exists'}), st.builds(lambda f, m: {'op': 'file_handle', 'filename': f, 'mode': m},
                                                                      st.sampled_from(['f.txt', 'new.bin']), st.sampled_from(['rb', 'wb', 'ab'])))
    again = st.one_of(st.builds(lambda f, m: {'op': 'file_handle', 'filename': f, 'mode': m},
                                st.sampled_from(['new.bin', 'inner.txt', 'f.txt', 'metadata.json']), st.sampled_from(['wb', 'rb', 'ab', 'w', 'r', 'x', 'rb+'])),
                      st.builds(lambda: {'op': 'delete'}), st.builds(lambda: {'op': 'exists'}))
    return st.builds(lambda k, a, o1, o2, o3, pre, mid, post: pre + [{**o1, 'key': k}] + mid + [{'op': 'plant', 'name': k, 'as': a}, {**o2, 'key': k}, {**o3, 'key': k}] + post,
                     st.sampled_from(['k1', 'newkey', 'k2', 'K-9_x']), st.sampled_from(['lnk_out_dir', 'lnk_abs', 'lnk_out_file', 'lnk_nested', 'lnk_self', 'lnk_dangling']),
                     first, again, again, st.lists(op(), max_size=1), st.lists(op(), max_size=1), st.lists(op(), max_size=1))


def case():
    return st.builds(lambda lay, ops: {'layout': lay, 'ops': ops}, layout(),
                     st.one_of(st.lists(op(), min_size=1, max_size=6), st.lists(op(), min_size=1, max_size=6), st.lists(op(), min_size=1, max_size=6), replant_ops()))


def plan(tier: str) -> list[dict]:
    q = tier == 'quick'
    jobs = [{'engine': 'ops', 'n': 300 if q else 15000, 'hashseed': i % 8} for i in range(16)]
    if not q:
        # secondary engine: coverage-guided fuzzing (atheris/libFuzzer) of the same oracle, empty corpus, four seeds
        jobs += [{'engine': 'atheris', 'seconds': 150, 'fuzz_seed': 1 + i, 'hashseed': 0, 'timeout': 900} for i in range(4)]
    return jobs


def run_atheris(rec: core.Recorder, job: dict, seed: int) -> None:
    import glob
    import json
    import subprocess
    import sys
    d = tempfile.mkdtemp(prefix='c18-fuzz-', dir=os.environ.get('VERIF_SCRATCH'))
    out, corpus = os.path.join(d, 'out'), os.path.join(d, 'corpus')
    os.makedirs(out)
    os.makedirs(corpus)
    env = dict(os.environ)
    cmd = [sys.executable, '-m', 'pbt.fuzz_c18', out, f'-max_total_time={job["seconds"]}', f'-seed={core.derive_seed(seed, job["fuzz_seed"]) % (2**31 - 1) + 1}',
           f'-artifact_prefix={out}/', '-print_final_stats=0', corpus]
    with open(os.path.join(d, 'log'), 'wb') as log:
        try:
            subprocess.run(cmd, env=env, stdout=log, stderr=log, stdin=subprocess.DEVNULL, timeout=job['seconds'] + 300, cwd=d)
        except subprocess.TimeoutExpired:
            pass
    stats = {}
    try:
        stats = json.load(open(os.path.join(out, 'stats.json')))
    except Exception:
        tail = open(os.path.join(d, 'log'), 'rb').read()[-300:].decode('utf-8', 'replace')
        rec.notes.append(f'atheris engine skipped or produced no statistics: {tail!r}')
    for f in glob.glob(os.path.join(out, 'finding-*.json')):
        rec_ = json.load(open(f))
        res = check(rec_['case'])            # re-decide outside the fuzzer (and get a proper CaseResult)
        rec.case('atheris', rec_['case'], res)
        bad = rec.triage('atheris', rec_['case'], res)
        if bad:
            rec.violation('atheris', rec_['case'], bad, res.summary)
    rec.extra['atheris_executions'] = rec.extra.get('atheris_executions', 0) + int(stats.get('execs', 0))
    rec.extra['atheris_nontrivial_executions'] = rec.extra.get('atheris_nontrivial_executions', 0) + int(stats.get('nontrivial', 0))
    shutil.rmtree(d, ignore_errors=True)


def run_job(rec: core.Recorder, job: dict, seed: int) -> None:
    if job['engine'] == 'atheris':
        run_atheris(rec, job, seed)
        return
    core.run_hypothesis(rec, 'ops', case(), check, max_examples=job['n'], seed=seed)


def replay(record: dict) -> core.CaseResult:
    return check(record['case'])
