"""C12 - a save that fails leaves no entry that looks cached."""
from __future__ import annotations

from hypothesis import strategies as st

from pbt import core, resultcase, savefault

LEVEL = 'fault_enumeration'
EXHAUSTIVE_CLAIM = True
RULE = ('Combinations of result shape {small, multi-frame 200 KB, unpicklable at depth d after k KB of picklable data} x cache format '
        '{PickleCache, custom two-file BaseCache} x {first save, overwrite via bust_cache} x storage {LocalStorage, FsspecStorage on '
        'LocalFileSystem} x backend {serial, fork}. Per combination a fault-free dry run counts (i) the storage events of the save - '
        'before/after each open, before / in the middle of (short write, then raise) / after each write, flush and close - and (ii) '
        'the line events executed in cache.py / storage.py / serialization.py inside Cache.save; then EVERY single-fault point is '
        'run: an OSError raised at storage event j (injecting Storage wrapper on the public ABC) and an exception raised by '
        'sys.settrace at line event k. Plus Hypothesis-generated shapes with drawn fault points. Oracle: the run reports the task '
        'failed, and a fresh Lab sees either not is_cached and not in cached_tasks, or is_cached, listed once, and run_tasks loads '
        '(zero executions) the correct value (after overwrite: old or new); cached_tasks must not raise. Non-trivial = the '
        'injection point was reached and lies strictly after the first storage event of the save (something is on disk). '
        'Distinct = hash of case.')
ASSUMPTIONS = ['single-fault model: one injected exception per save; the storage works again afterwards',
               'line-event injection covers labtech\'s own save-path files, not the pickle/json C code underneath']

SMALL = ['dict', [['a', ['int', '1']], ['b', ['list', [['str', 'x'], ['float', (1.5).hex()]]]]]]
MULTI = ['list', [['bytes', 200_000, 1], ['bytes', 90_000, 2], ['str', 'tail']]]
UNP_SHALLOW = ['unpicklable', 10, 0]
UNP_DEEP = ['unpicklable', 150_000, 4]


def combos(tier: str) -> list[dict]:
    q = tier == 'quick'
    out = []
    for typ in ('RV', 'RJ'):
        for overwrite in (False, True):
            for storage in ('local', 'fsspec_local'):
                for shape_name, shape in (('small', SMALL), ('multi', MULTI)):
                    for backend in ('serial', 'fork'):
                        if q and backend == 'fork' and not (typ == 'RV' and storage == 'local' and shape_name == 'small'):
                            continue
                        if q and shape_name == 'multi' and (typ == 'RJ' or storage != 'local' or overwrite):
                            continue
                        out.append({'type': typ, 'shape': shape, 'shape_name': shape_name, 'overwrite': overwrite, 'storage': storage, 'backend': backend})
    out.append({'type': 'RN', 'shape': SMALL, 'shape_name': 'small', 'overwrite': False, 'storage': 'local', 'backend': 'serial'})
    return out


def enumerate_cases(tier: str) -> list[dict]:
    cases = []
    for c in combos(tier):
        base = {k: v for k, v in c.items()}
        events, lines = savefault.dry_run({**base, 'inject': {'kind': 'none'}})
        step = 1
        for j in range(0, events, step):
            cases.append({**base, 'inject': {'kind': 'storage', 'at': j, 'action': 'raise'}, 'total': events})
        for k in range(0, lines, step):
            cases.append({**base, 'inject': {'kind': 'line', 'at': k, 'action': 'raise'}, 'total': lines})
        # unpicklable results fail on their own
    for typ in ('RV', 'RJ', 'RN'):      # RN: a type whose post_init normalises one of its own parameters
        for overwrite in (False, True):
            for shape_name, shape in (('unpicklable-shallow', UNP_SHALLOW), ('unpicklable-deep', UNP_DEEP)):
                for backend in ('serial', 'fork'):
                    cases.append({'type': typ, 'shape': shape, 'shape_name': shape_name, 'overwrite': overwrite, 'storage': 'local',
                                  'backend': backend, 'inject': {'kind': 'none'}, 'total': 0})
    return cases


def check(case: dict) -> core.CaseResult:
    out = savefault.run_case(case)
    unp = case['shape'][0] == 'unpicklable'
    if case['inject']['kind'] == 'none' and not unp:
        return core.CaseResult(summary=out.summary())
    findings = savefault.judge('C12', case, out, expect_reported='failed')
    nt = out.reached and (case['inject'].get('at', 1) > 0)
    labels = [f'inject={case["inject"]["kind"]}', f'type={case["type"]}', f'{"overwrite" if case.get("overwrite") else "first-save"}',
              f'storage={case["storage"]}', f'backend={case["backend"]}', f'shape={case.get("shape_name", "generated")}',
              'reached' if out.reached else 'not-reached', f'post={"cached" if out.is_cached is True else "not-cached"}:{out.load}']
    return core.CaseResult(findings=findings, nontrivial=nt, labels=tuple(labels), summary=out.summary())


NSHARDS = 14


def plan(tier: str) -> list[dict]:
    jobs = [{'engine': 'enumerated', 'shard': i, 'hashseed': i % 8} for i in range(NSHARDS)]
    jobs += [{'engine': 'generated', 'n': 40 if tier == 'quick' else 1500, 'hashseed': i} for i in range(2)]
    return jobs


@st.composite
def generated_case(draw):
    shape = draw(st.one_of(resultcase.shapes(max_big=150_000), st.tuples(st.integers(0, 120_000), st.integers(0, 5)).map(lambda t: ['unpicklable', t[0], t[1]])))
    kind = draw(st.sampled_from(['storage', 'line'])) if shape[0] != 'unpicklable' else 'none'
    return {'type': draw(st.sampled_from(['RV', 'RJ', 'RN'])), 'shape': shape, 'overwrite': draw(st.booleans()),
            'storage': draw(st.sampled_from(['local', 'fsspec_local'])), 'backend': draw(st.sampled_from(['serial', 'serial', 'fork'])),
            'inject': {'kind': kind, 'at': draw(st.integers(0, 400)), 'action': 'raise'} if kind != 'none' else {'kind': 'none'}}


def run_job(rec: core.Recorder, job: dict, seed: int) -> None:
    if job['engine'] == 'enumerated':
        cases = enumerate_cases(rec.tier)
        mine = [c for i, c in enumerate(cases) if i % NSHARDS == job['shard']]
        core.run_cases(rec, 'enumerated', mine, check)
        rec.exhaustive[f'shard{job["shard"]}'] = {'complete': True, 'points': len(mine), 'of_total': len(cases),
                                                  'combinations': len(combos(rec.tier)), 'step': 'every storage-event and line-event point of every listed combination'}
    else:
        core.run_hypothesis(rec, 'generated', generated_case(), check, max_examples=job['n'], seed=seed)


def replay(record: dict) -> core.CaseResult:
    return check(record['case'])
