"""C19 - messages emitted by a task reach the caller's log exactly once."""
from __future__ import annotations

import logging
import os
import shutil
import tempfile

from hypothesis import strategies as st

import labtech

from pbt import core
from pbt.runners import Chooser, Control, SpyBackend, HarnessTimeout
from pbt.universe import vu

LEVEL = 'exploration'
RULE = ('1-5 chatty tasks (independent, chains, fan-in) x backends {fork, spawn sampled; serial for logger records} x max_workers x '
        'per-task scripts: interleavings of logger.info/warning/error(token), print(token), print(token, flush=True), '
        'sys.stderr.write(token) without newline, print(token, file=stderr), explicit flush of both streams repeated 0-3 times, '
        'whitespace-only prints, rows that start with whitespace, bursts of 120-2600 logger records, logger calls with lazily formatted unpicklable arguments, and tasks that raise after emitting; every token is unique (<task>:<stream>:<seq>). Gated variants (fork) let the schedule choose '
        'which task finishes in the last polling round; single-task runs are always included. Oracle: a handler attached to '
        'labtech.logger in the caller records (level, message); at the instant run_tasks returns every token must occur exactly '
        'once over all recorded messages, on the expected stream/level (Captured STDOUT -> INFO, Captured STDERR -> ERROR, logger '
        'calls at their own level); a second unrelated run_tasks afterwards must deliver no token of the first run. '
        'Whitespace-only writes are exempt (documented filter). Non-trivial = a task flushes >= 2 times, or emits after its last '
        'flush, or the task finishing last emits. Distinct = hash of spec.')
ASSUMPTIONS = ['stdout/stderr capture is only claimed for process backends; under serial only logger records are checked']


class Recorder(logging.Handler):
    def __init__(self):
        super().__init__(level=logging.DEBUG)
        self.records = []

    def emit(self, record):
        try:
            self.records.append((record.levelname, record.getMessage()))
        except Exception as ex:     # pragma: no cover
            self.records.append(('ERROR-IN-HANDLER', repr(ex)))


def _tok(t):
    return ':'.join(str(x) for x in t) if isinstance(t, (list, tuple)) else t


def tokens_of(spec: dict):
    """token -> (expected level, expected prefix or None)"""
    out = {}
    for n in spec['nodes']:
        for act in n['script']:
            if act[0] == 'logargs':
                out[_tok(act[1])] = ('INFO', None)
            elif act[0] == 'log':
                out[_tok(act[2])] = (act[1].upper(), None)
            elif act[0] == 'print':
                out[_tok(act[1])] = ('INFO', 'Captured STDOUT')
            elif act[0] in ('err', 'errln'):
                out[_tok(act[1])] = ('ERROR', 'Captured STDERR')
            elif act[0] == 'burst':
                for i in range(act[1]):
                    out[f'{_tok(act[2])}:{i}:'] = ('INFO', None)
    return out


def check(spec: dict) -> core.CaseResult:
    findings = []
    backend = spec['backend']
    d = tempfile.mkdtemp(prefix='c19-', dir=os.environ.get('VERIF_SCRATCH'))
    obs = os.path.join(d, 'obs')
    os.makedirs(obs)
    old = os.environ.get('VERIF_OBS_DIR')
    os.environ['VERIF_OBS_DIR'] = obs
    handler = Recorder()
    saved_handlers = list(labtech.logger.handlers)
    saved_level = labtech.logger.level
    labtech.logger.handlers = [handler]
    labtech.logger.setLevel(logging.INFO)
    timed_out = False
    try:
        objs = []
        for n in spec['nodes']:
            deps = [objs[j] for j in n['deps']]
            objs.append(vu.Chat(name=n['name'], script=n['script'], deps=deps if deps else None))
        gated = spec.get('gated', False) and backend == 'fork'
        if gated:
            open(os.path.join(obs, 'gated'), 'w').close()
        import time
        ctl = Control(Chooser(spec.get('schedule', [])), gated=gated, obs_dir=obs, deadline=time.monotonic() + (150 if backend == 'spawn' else 60))
        lab = labtech.Lab(storage=None, runner_backend=SpyBackend(backend, ctl), max_workers=spec['max_workers'], notebook=False)
        try:
            lab.run_tasks([objs[i] for i in spec['requested']], disable_progress=True, disable_top=True)
        except HarnessTimeout:
            timed_out = True
        except Exception as ex:
            findings.append(core.Finding(f'C19:run-raised:{type(ex).__name__}', repr(ex)[:300]))
        at_return = list(handler.records)
        if gated:
            for n in spec['nodes']:
                open(os.path.join(obs, f'gate.{n["name"]}'), 'w').close()
        # a second, unrelated run must not deliver anything from the first
        if not timed_out:
            if gated:
                os.remove(os.path.join(obs, 'gated'))
            lab2 = labtech.Lab(storage=None, runner_backend=backend, max_workers=1, notebook=False)
            try:
                lab2.run_tasks([vu.Chat(name='later', script=[['log', 'info', ['later', 'log', 0]]], deps=None)], disable_progress=True, disable_top=True)
            except Exception:
                pass
        late = handler.records[len(at_return):]
        toks = tokens_of(spec)
        executed = {r[1] for r in vu.read_trace(obs) if r[0] == 'E'}
        for tok, (level, prefix) in toks.items():
            node = tok.split(':')[0]
            if node not in executed:
                continue
            if backend == 'serial' and prefix is not None:
                continue      # stdout/stderr are not proxied by the serial backend: not claimed
            hits = [(lv, m) for lv, m in at_return if tok in m]
            count = sum(m.count(tok) for _, m in hits)
            stream = 'logger' if prefix is None else prefix.split()[-1].lower()
            if count == 0:
                if any(tok in m for _, m in late):
                    findings.append(core.Finding(f'C19:{stream}-message-delivered-only-after-run_tasks-returned', tok))
                else:
                    findings.append(core.Finding(f'C19:{stream}-message-lost', tok))
            elif count > 1:
                findings.append(core.Finding(f'C19:{stream}-message-delivered-more-than-once', f'{tok} x{count}'))
            else:
                lv, m = hits[0]
                if lv != level:
                    findings.append(core.Finding(f'C19:{stream}-message-at-wrong-level', f'{tok}: {lv} != {level}'))
                if prefix is not None and prefix not in m:
                    findings.append(core.Finding(f'C19:{stream}-message-without-capture-prefix', m[:200]))
            if any(tok in m for _, m in late) and count >= 1:
                findings.append(core.Finding(f'C19:{stream}-message-delivered-again-after-return', tok))
    finally:
        labtech.logger.handlers = saved_handlers
        labtech.logger.setLevel(saved_level)
        if old is None:
            os.environ.pop('VERIF_OBS_DIR', None)
        else:
            os.environ['VERIF_OBS_DIR'] = old
        shutil.rmtree(d, ignore_errors=True)
    seen = set()
    findings = [f for f in findings if not (f.signature in seen or seen.add(f.signature))]
    nt = False
    for n in spec['nodes']:
        kinds = [a[0] for a in n['script']]
        flushes = sum(1 for a in n['script'] if a[0] == 'flush' or (a[0] == 'print' and a[2]))
        last_flush = max([i for i, a in enumerate(n['script']) if a[0] == 'flush' or (a[0] == 'print' and a[2])], default=-1)
        emits_after = any(a[0] in ('print', 'err', 'errln') for a in n['script'][last_flush + 1:])
        if flushes >= 2 or emits_after:
            nt = True
    labels = [f'backend={backend}{"+gated" if spec.get("gated") else ""}', f'nodes={len(spec["nodes"])}']
    return core.CaseResult(findings=findings, nontrivial=nt and backend != 'serial', labels=tuple(labels), inconclusive=timed_out, stop_search=timed_out,
                           summary={'records_at_return': at_return[:12]})


INDENTS = st.sampled_from(['', '', '  ', '\t', ' \t ', '        '])      # rows of a table, a traceback's "  File ..." lines


@st.composite
def chat_spec(draw, backend: str, gated: bool):
    n = draw(st.integers(1, 3 if backend == 'spawn' else 5))
    nodes = []
    for i in range(n):
        name = f'c{i}'
        k = draw(st.integers(0, 7))
        script = []
        for s in range(k):
            kind = draw(st.sampled_from(['log', 'log', 'print', 'print', 'printf', 'err', 'errln', 'flush', 'flush', 'ws']))
            if kind == 'log' and draw(st.integers(0, 4)) == 0:
                script.append(['logargs', [name, 'logargs', s]])
            elif kind == 'log':
                script.append(['log', draw(st.sampled_from(['info', 'warning', 'error'])), [name, 'log', s]])
            elif kind == 'print':
                script.append(['print', [name, 'out', s], False, draw(INDENTS)])
            elif kind == 'printf':
                script.append(['print', [name, 'out', s], True, draw(INDENTS)])
            elif kind == 'err':
                script.append(['err', [name, 'err', s]])
            elif kind == 'errln':
                script.append(['errln', [name, 'err', s], draw(INDENTS)])
            elif kind == 'flush':
                script.append(['flush'])
            else:
                script.append(['ws'])
        if draw(st.integers(0, 5)) == 0:
            script.insert(draw(st.integers(0, len(script))), ['burst', draw(st.sampled_from([120, 450, 900, 2600])), [name, 'burst']])
        if draw(st.integers(0, 3)) == 0:
            script.append(['raise'])       # the task fails after emitting: what it emitted must still be delivered
        deps = sorted(set(draw(st.lists(st.integers(0, i - 1), max_size=2)))) if i else []
        if any(a[0] == 'raise' for n_ in nodes for a in n_['script'] if nodes.index(n_) in deps):
            deps = []                       # keep dependents of failing tasks out of the picture
        nodes.append({'name': name, 'script': script, 'deps': deps})
    requested = sorted(set(draw(st.lists(st.integers(0, n - 1), min_size=1, max_size=n)) + [n - 1]))
    return {'nodes': nodes, 'requested': requested, 'backend': backend, 'gated': gated,
            'max_workers': draw(st.sampled_from([1, 2, None])), 'schedule': draw(st.lists(st.integers(0, 7), max_size=12))}


def plan(tier: str) -> list[dict]:
    q = tier == 'quick'
    jobs = [{'engine': 'fork', 'gated': False, 'n': 25 if q else 600, 'hashseed': i} for i in range(5)]
    jobs += [{'engine': 'fork', 'gated': True, 'n': 12 if q else 300, 'hashseed': i} for i in range(5)]
    jobs += [{'engine': 'spawn', 'gated': False, 'n': 3 if q else 50, 'hashseed': i} for i in range(4)]
    jobs += [{'engine': 'serial', 'gated': False, 'n': 40 if q else 800, 'hashseed': 3}]
    return jobs


def run_job(rec: core.Recorder, job: dict, seed: int) -> None:
    e = job['engine'] + ('+gated' if job['gated'] else '')
    core.run_hypothesis(rec, e, chat_spec(job['engine'], job['gated']), check, max_examples=job['n'], seed=seed,
                        shrink=(rec.tier == 'thorough' or job['engine'] != 'spawn'))


def replay(record: dict) -> core.CaseResult:
    return check(record['case'])
