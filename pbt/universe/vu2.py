"""Same-named twins of some vu types/enums, living in a different module."""
from __future__ import annotations

import enum
from typing import Any

import labtech

MODULE = __name__


def _run(self):
    return ('vu2', type(self).__name__, repr(self))


def _param_type(tname: str, fields: dict, **kw):
    ns = {'__annotations__': dict(fields), 'run': _run, '__module__': MODULE, '__qualname__': tname}
    return labtech.task(**kw)(type(tname, (), ns))


TV = _param_type('TV', {'v': Any})
PV = _param_type('PV', {'v': Any})


class Color(enum.Enum):
    RED = 1
    GREEN = 2
    BLUE = 'blue'


ENUMS = {'Color': Color}
PARAM_TYPES = {'TV': TV, 'PV': PV}
