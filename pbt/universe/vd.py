"""Typed task types for the diagram property (C20)."""
from __future__ import annotations

from typing import Any, Optional

import labtech

MODULE = __name__


@labtech.task
class DA:
    x: int

    def run(self) -> int:
        return self.x


@labtech.task
class DB:
    a: Any
    label: str = 'l'

    def run(self) -> str:
        return self.label


@labtech.task
class DC:
    items: Any
    n: int = 0

    def run(self) -> dict:
        return {}


@labtech.task
class DD:
    one_or_many: Any
    other: Any = None

    def run(self):
        return None


@labtech.task
class DE:
    left: Any
    right: Any
    flag: bool = False

    def run(self) -> list:
        return []


@labtech.task(cache=None)
class DF:
    src: Any = None
    w: float = 1.0
    tag: Optional[str] = None

    def run(self) -> float:
        return self.w


@labtech.task
class DG(DB):
    """A task type that inherits its first parameters from another task type."""
    extra: int = 0
    more: Any = None

    def run(self) -> str:
        return self.label


TYPES = {c.__name__: c for c in (DA, DB, DC, DD, DE, DF, DG)}
# task-holding fields and scalar fields (with a default value to use) per type
TASK_FIELDS = {'DA': [], 'DB': ['a'], 'DC': ['items'], 'DD': ['one_or_many', 'other'], 'DE': ['left', 'right'], 'DF': ['src'], 'DG': ['a', 'more']}
ALL_FIELDS = {'DA': ['x'], 'DB': ['a', 'label'], 'DC': ['items', 'n'], 'DD': ['one_or_many', 'other'],
              'DE': ['left', 'right', 'flag'], 'DF': ['src', 'w', 'tag'], 'DG': ['a', 'label', 'extra', 'more']}
# a string-valued parameter per type (its value varies per node, so task hashes depend on the interpreter's hash seed)
STR_FIELD = {'DB': 'label', 'DF': 'tag', 'DG': 'label'}
RETURNS = {'DA': 'int', 'DB': 'str', 'DC': 'dict', 'DD': None, 'DE': 'list', 'DF': 'float', 'DG': 'str'}
