"""Typed task types for the diagram property (C20)."""
from __future__ import annotations

from typing import Any, Optional

import labtech

MODULE = __name__


@labtech.task
class DA:
    x: int

    def run(self) -> int:
        return self.x


@labtech.task
class DB:
    a: Any
    label: str = 'l'

    def run(self) -> str:
        return self.label


@labtech.task
class DC:
    items: Any
    n: int = 0

    def run(self) -> dict:
        return {}


@labtech.task
class DD:
    one_or_many: Any
    other: Any = None

    def run(self):
        return None


@labtech.task
class DE:
    left: Any
    right: Any
    flag: bool = False

    def run(self) -> list:
        return []


@labtech.task(cache=None)
class DF:
    src: Any = None
    w: float = 1.0
    tag: Optional[str] = None

    def run(self) -> float:
        return self.w


TYPES = {c.__name__: c for c in (DA, DB, DC, DD, DE, DF)}
# task-holding fields and scalar fields (with a default value to use) per type
TASK_FIELDS = {'DA': [], 'DB': ['a'], 'DC': ['items'], 'DD': ['one_or_many', 'other'], 'DE': ['left', 'right'], 'DF': ['src']}
ALL_FIELDS = {'DA': ['x'], 'DB': ['a', 'label'], 'DC': ['items', 'n'], 'DD': ['one_or_many', 'other'],
              'DE': ['left', 'right', 'flag'], 'DF': ['src', 'w', 'tag']}
RETURNS = {'DA': 'int', 'DB': 'str', 'DC': 'dict', 'DD': None, 'DE': 'list', 'DF': 'float'}
