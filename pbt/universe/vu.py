"""Task universe: module-level labtech task types whose behaviour is a pure function of their parameters,
their (filtered) context and their dependencies' results. Importable by fork/spawn children, by fresh
interpreters and by labtech's Serializer.deserialize_class."""
from __future__ import annotations

import enum
import json
import os
import pickle
import signal
import sys
import threading
import time
from typing import Any, ClassVar

from frozendict import frozendict

import labtech
from labtech.cache import BaseCache, PickleCache

from pbt.values import combine, ctx_digest, digest

MODULE = __name__


# ---------------------------------------------------------------------------------------------------
# observation trace: one O_APPEND write per record => file order is a linearisation across processes
# ---------------------------------------------------------------------------------------------------

def obs_dir():
    return os.environ.get('VERIF_OBS_DIR')


def trace(rec: str) -> None:
    d = os.environ.get('VERIF_OBS_DIR')
    if not d:
        return
    fd = os.open(os.path.join(d, 'trace'), os.O_WRONLY | os.O_APPEND | os.O_CREAT, 0o644)
    try:
        os.write(fd, (rec + '\n').encode('utf-8', 'backslashreplace'))
    finally:
        os.close(fd)


def read_trace(d: str) -> list[list[str]]:
    p = os.path.join(d, 'trace')
    if not os.path.exists(p):
        return []
    with open(p, 'rb') as f:
        return [line.decode('utf-8', 'replace').split(' ') for line in f.read().splitlines() if line]


def gate_wait(name: str, stubborn: bool = False) -> None:
    d = os.environ.get('VERIF_OBS_DIR')
    if not d or not os.path.exists(os.path.join(d, 'gated')):
        return
    g = os.path.join(d, f'gate.{name}')
    deadline = time.monotonic() + (25 if stubborn else 300)
    while not os.path.exists(g):
        if time.monotonic() > deadline:
            raise RuntimeError(f'gate for {name} never opened (harness timeout)')
        if stubborn:
            # user code with a catch-all retry loop: nothing raised inside it (SystemExit, KeyboardInterrupt, ...) ends the task
            try:
                time.sleep(0.002)
            except BaseException:
                continue
        else:
            time.sleep(0.002)


# ---------------------------------------------------------------------------------------------------
# exceptions raised by failing nodes
# ---------------------------------------------------------------------------------------------------

class CustomErr(Exception):
    pass


class UnpicklableErr(Exception):
    """An Exception whose instance cannot cross a process boundary."""

    def __init__(self, msg):
        super().__init__(msg)
        self.handle = lambda: None


class CustomBase(BaseException):
    pass


class SimulatedDeath(BaseException):
    """In-process stand-in for a worker that is killed (ControlledRunner turns it into TaskDiedError)."""


EXC_TYPES = {'ValueError': ValueError, 'KeyError': KeyError, 'CustomErr': CustomErr,
             'UnpicklableErr': UnpicklableErr, 'ZeroDivisionError': ZeroDivisionError}


def _control_flow_exceptions() -> dict:
    """Exception types that runners, caches and the coordinator themselves use for control flow: a task's own run() may raise any of
    them, and that is still just a failed task."""
    import queue

    import labtech.exceptions as le
    out = {'IndexError': IndexError, 'StopIteration': StopIteration, 'Empty': queue.Empty, 'TimeoutError': TimeoutError,
           'FileNotFoundError': FileNotFoundError, 'AssertionError': AssertionError, 'RuntimeError': RuntimeError}
    for name in ('TaskNotFound', 'CacheError', 'TaskDiedError', 'LabError', 'StorageError', 'RunnerError'):
        if hasattr(le, name):
            out[name] = getattr(le, name)
    return out


CONTROL_FLOW_EXCS = _control_flow_exceptions()
EXC_TYPES.update(CONTROL_FLOW_EXCS)
CONTROL_FLOW_MODES = ['raise:' + k for k in sorted(CONTROL_FLOW_EXCS)]


def walk_tasks(v):
    """Every task instance inside a (normalised) parameter value, in traversal order. Harness-side walker,
    deliberately not labtech's find_tasks_in_param."""
    if labtech.is_task(v):
        yield v
    elif isinstance(v, (tuple, list)):
        for x in v:
            yield from walk_tasks(x)
    elif isinstance(v, (dict, frozendict)):
        for x in v.values():
            yield from walk_tasks(x)


def _die(sig, name):
    trace(f'K {name}')
    if os.environ.get('VERIF_INPROC') == '1':
        raise SimulatedDeath(str(sig))
    os.kill(os.getpid(), sig)
    time.sleep(30)


def _act(self, mode: str):
    if mode in ('ok', 'probe', 'stubborn', 'linger'):
        return
    if mode.startswith('raise:'):
        cls = EXC_TYPES[mode.split(':', 1)[1]]
        try:
            exc = cls(f'boom {self.name}')
        except TypeError:
            exc = cls()       # e.g. TaskDiedError takes no message
        raise exc
    if mode.startswith('flag:'):
        if (self.context or {}).get(mode.split(':', 1)[1]):
            raise CustomErr(f'flagged {self.name}')
        return
    if mode == 'raisefrom':
        try:
            {}['inner-lookup']
        except KeyError as inner:
            raise CustomErr(f'outer {self.name}') from inner
    if mode == 'exit':
        sys.exit(3)
    if mode == 'baseexc':
        raise CustomBase(f'base {self.name}')
    if mode == 'exit0':
        # the worker process ends with exit status 0 without ever reporting a result
        trace(f'K {self.name}')
        if os.environ.get('VERIF_INPROC') == '1':
            raise SimulatedDeath('exit0')
        os._exit(0)
    if mode == 'kill9':
        _die(signal.SIGKILL, self.name)
    if mode == 'kill15':
        _die(signal.SIGTERM, self.name)
    if mode == 'unpicklable':
        return
    raise RuntimeError(f'harness: unknown mode {mode!r}')


def node_run(self):
    trace(f'S {self.name} {os.getpid()} {os.getppid()} {threading.get_native_id()} {type(self).__name__}')
    try:
        return _node_body(self)
    except BaseException as ex:
        if not isinstance(ex, SimulatedDeath):
            trace(f'X {self.name} {type(ex).__name__}')
        raise


def _node_body(self):
    name = self.name
    tname = type(self).__name__
    gate_wait(name, stubborn=(self.mode == 'stubborn'))
    dep_digests = []
    if self.read:
        for dep in walk_tasks(self.deps):
            try:
                v = dep.result
            except BaseException as ex:
                trace(f'R {name} {dep.name} EXC {type(ex).__module__}.{type(ex).__qualname__}')
                raise
            dv = digest(v)
            trace(f'R {name} {dep.name} {dv}')
            dep_digests.append(dv)
    _act(self, self.mode)
    ctx = self.context
    nonce = (ctx or {}).get('nonce')
    value = combine(tname, name, self.payload, ctx_digest(ctx), dep_digests, nonce)
    if self.mode == 'unpicklable':
        value = value + (lambda: None,)
        trace(f'E {name} unpicklable')
        return value
    if self.mode == 'probe':
        import multiprocessing
        value = value + (probe_env(),)
    trace(f'E {name} {digest(value)} {os.getpid()}')
    if self.mode == 'linger' and os.environ.get('VERIF_INPROC') != '1':
        _linger(name, tuple(self.payload or ()))
    return value


LINGER_S = 6.0


def _linger(name: str, watch: tuple) -> None:
    """run() is about to return, but the task's process stays alive: a non-daemon thread keeps running until one of the watched
    tasks has started (or LINGER_S is over, which it records)."""
    d = os.environ.get('VERIF_OBS_DIR')

    def body():
        t_end = time.monotonic() + LINGER_S
        while time.monotonic() < t_end:
            try:
                if any(r[0] == 'S' and r[1] in watch for r in read_trace(d)):
                    return
            except Exception:
                pass
            time.sleep(0.02)
        trace(f'M linger-timeout {name}')
    threading.Thread(target=body, daemon=False).start()


PROBE_GLOBAL = 'import-time'
PROBE_LIST: list = []


def probe_env() -> tuple:
    import multiprocessing
    return (os.getpid(), os.getppid(), threading.get_native_id(), PROBE_GLOBAL, tuple(PROBE_LIST),
            multiprocessing.current_process().name)


def _fields():
    return {'name': str, 'deps': Any, 'mode': str, 'payload': Any, 'read': bool}


DECLARED_MAX_PARALLEL: dict = {}     # what the decorator call declares - NOT read back from labtech


def _node_type(tname: str, *, max_parallel=None, cache=labtech.tasks.CACHE_DEFAULT, extra_ns=None, bases=(), extra_annotations=None):
    ns = {'__annotations__': {**(extra_annotations or {}), **_fields()}, 'run': node_run, '__module__': MODULE, '__qualname__': tname,
          'read': True}
    if extra_ns:
        ns.update(extra_ns)
    cls = type(tname, tuple(bases), ns)
    DECLARED_MAX_PARALLEL[tname] = max_parallel
    return labtech.task(cache=cache, max_parallel=max_parallel)(cls)


class JCache(BaseCache):
    """The docs' custom-cache pattern: own KEY_PREFIX, own format (two files per entry)."""
    KEY_PREFIX = 'vj__'

    def save_result(self, storage, task, result):
        blob = pickle.dumps(result, protocol=4)
        with storage.file_handle(task.cache_key, 'part1.bin', mode='wb') as f:
            f.write(blob)
        import hashlib
        with storage.file_handle(task.cache_key, 'part2.txt', mode='w') as f:
            f.write(hashlib.sha1(blob).hexdigest())

    def load_result(self, storage, task):
        import hashlib
        with storage.file_handle(task.cache_key, 'part1.bin', mode='rb') as f:
            blob = f.read()
        with storage.file_handle(task.cache_key, 'part2.txt', mode='r') as f:
            d = f.read()
        if d != hashlib.sha1(blob).hexdigest():
            raise ValueError('JCache entry is inconsistent')
        return pickle.loads(blob)


class P2Cache(PickleCache):
    """A PickleCache subclass sharing the 'pickle__' prefix (different cache class name)."""


def _ctxsub_filter(self, context):
    keys = self.payload if isinstance(self.payload, tuple) else ()
    out = {k: context[k] for k in keys if k in context}
    if 'nonce' in context:
        out['nonce'] = context['nonce']
    return out


def _ctxwrap_filter(self, context):
    # deliberately NOT idempotent: applying it twice gives a different context
    out = {'wrapped': {k: v for k, v in context.items() if k != 'nonce'}}
    if 'nonce' in context:
        out['nonce'] = context['nonce']
    return out


N1 = _node_type('N1', max_parallel=1)
N2 = _node_type('N2', max_parallel=2)
N3 = _node_type('N3', max_parallel=3)
NN = _node_type('NN')
N = _node_type('N')
NX = _node_type('NX')
Z = _node_type('Z', cache=None)
Z1 = _node_type('Z1', cache=None, max_parallel=1)
Z2 = _node_type('Z2', cache=None, max_parallel=2)
J = _node_type('J', cache=JCache())
P2 = _node_type('P2', cache=P2Cache())
T = _node_type('T')
CtxSub = _node_type('CtxSub', extra_ns={'filter_context': _ctxsub_filter})
CtxSub2 = _node_type('CtxSub2', max_parallel=2, extra_ns={'filter_context': _ctxsub_filter})
CtxWrap = _node_type('CtxWrap', extra_ns={'filter_context': _ctxwrap_filter})


class CtxMixin:
    """A plain (undecorated) base class that provides filter_context, as a project-wide mixin would."""
    filter_context = _ctxsub_filter


# task types that INHERIT their filter_context: from a plain mixin base / from a parent task type (which also has a max_parallel)
CtxSubMix = _node_type('CtxSubMix', bases=(CtxMixin,))
CtxSubKid = _node_type('CtxSubKid', max_parallel=1, bases=(CtxSub2,))

# a task type carrying a class-level constant (typing.ClassVar) whose value is a task: not a parameter, not a dependency
NCV = _node_type('NCV', extra_ns={'BASELINE': NN(name='stray-classvar-task', deps=None, mode='ok', payload=None, read=True)},
                 extra_annotations={'BASELINE': ClassVar[Any]})

NODE_TYPES = {c.__name__: c for c in (N1, N2, N3, NN, N, NX, Z, Z1, Z2, J, P2, T, CtxSub, CtxSub2, CtxWrap, CtxSubMix, CtxSubKid, NCV)}
CACHEABLE = {k for k, c in NODE_TYPES.items() if not isinstance(c._lt.cache, labtech.cache.NullCache)}
MAX_PARALLEL = {k: DECLARED_MAX_PARALLEL[k] for k in NODE_TYPES}


# ---------------------------------------------------------------------------------------------------
# parameter carriers, enums, post_init type (C07, C09, C15)
# ---------------------------------------------------------------------------------------------------

class Color(enum.Enum):
    RED = 1
    GREEN = 2
    BLUE = 'blue'
    CRIMSON = 1        # alias of RED


class Num(enum.IntEnum):
    ONE = 1
    TWO = 2
    ZERO = 0


class Sx(enum.StrEnum):
    A = 'a'
    RED = 'RED'
    EMPTY = ''


class Other(enum.Enum):
    RED = 1            # same member name and value as Color.RED, different enum type
    GREEN = 'x'


ENUMS = {'Color': Color, 'Num': Num, 'Sx': Sx, 'Other': Other}


def _pv_run(self):
    trace(f'S {type(self).__name__}:{self.cache_key} {os.getpid()}')
    return ('pv', type(self).__name__, repr(self))


def _param_type(tname: str, fields: dict, defaults: dict = None, **kw):
    ns = {'__annotations__': dict(fields), 'run': _pv_run, '__module__': MODULE, '__qualname__': tname}
    ns.update(defaults or {})
    ns.update(kw.pop('extra_ns', {}))
    return labtech.task(**kw)(type(tname, (), ns))


PV = _param_type('PV', {'v': Any})
PW = _param_type('PW', {'v': Any})                       # same shape, different type
M3 = _param_type('M3', {'a': Any, 'b': Any, 'c': Any}, {'c': None})
ZV = _param_type('ZV', {'v': Any}, cache=None)
JV = _param_type('JV', {'v': Any}, cache=JCache())
P2V = _param_type('P2V', {'v': Any}, cache=P2Cache())
NV = _param_type('NV', {'v': Any})                       # 'NV' is a prefix of 'NVX'
NVX = _param_type('NVX', {'v': Any})
TV = _param_type('TV', {'v': Any})                       # twin of vu2.TV (same qualname, other module)


def _pi_post_init(self):
    object.__setattr__(self, 'derived', ('derived', repr(self.v)))


def _pi_run(self):
    return ('pi', self.derived)


PI = _param_type('PI', {'v': Any}, extra_ns={'post_init': _pi_post_init, 'run': _pi_run})

PARAM_TYPES = {c.__name__: c for c in (PV, PW, M3, ZV, JV, P2V, NV, NVX, TV, PI)}


# ---------------------------------------------------------------------------------------------------
# result-shape carriers (C06, C12, C13): run() builds its value from a shape spec
# ---------------------------------------------------------------------------------------------------

def build_shape(sh):
    kind = sh[0]
    if kind == 'none':
        return None
    if kind == 'int':
        return int(sh[1])
    if kind == 'float':
        return float.fromhex(sh[1])
    if kind == 'str':
        return sh[1]
    if kind == 'bytes':
        n, seed = sh[1], sh[2]
        unit = bytes((seed * 31 + i * 7) % 256 for i in range(251))
        return (unit * (n // 251 + 1))[:n]
    if kind == 'list':
        return [build_shape(x) for x in sh[1]]
    if kind == 'tuple':
        return tuple(build_shape(x) for x in sh[1])
    if kind == 'set':
        return set(sh[1])
    if kind == 'dict':
        return {kv[0]: build_shape(kv[1]) for kv in sh[1]}
    if kind == 'unpicklable':
        # picklable data first (sh[1] bytes), then something pickle cannot handle, nested sh[2] levels deep
        inner = lambda: None   # noqa: E731
        for _ in range(sh[2]):
            inner = [inner]
        return [build_shape(('bytes', sh[1], 3)), inner]
    raise ValueError(sh)


def _rv_run(self):
    trace(f'S {self.name} {os.getpid()} {os.getppid()} {threading.get_native_id()} {type(self).__name__}')
    depd = []
    for dep in walk_tasks(self.deps):
        depd.append(digest(dep.result))
    value = {'name': self.name, 'v': build_shape(self.shape), 'deps': depd, 'gen': (self.context or {}).get('gen')}
    hook = os.environ.get('VERIF_RUN_HOOK')
    if hook:
        import importlib
        mod, fn = hook.rsplit(':', 1)
        getattr(importlib.import_module(mod), fn)(self)
    trace(f'E {self.name} {type(self).__name__}')
    return value


def _result_type(tname: str, **kw):
    ns = {'__annotations__': {'name': str, 'shape': Any, 'deps': Any}, 'run': _rv_run, '__module__': MODULE,
          '__qualname__': tname, 'deps': None}
    return labtech.task(**kw)(type(tname, (), ns))


RV = _result_type('RV')
RJ = _result_type('RJ', cache=JCache())
RZ = _result_type('RZ', cache=None)


def _rs_run(self):
    v = _rv_run(self)
    v['produced_by'] = self       # the result embeds the task object that produced it
    return v


RS = labtech.task()(type('RS', (), {'__annotations__': {'name': str, 'shape': Any, 'deps': Any}, 'run': _rs_run, '__module__': MODULE,
                                    '__qualname__': 'RS', 'deps': None}))
def _rn_post_init(self):
    # a post_init that normalises one of the task's own parameters (the documented object.__setattr__ idiom)
    object.__setattr__(self, 'name', self.name.strip().lower())


RN = labtech.task()(type('RN', (), {'__annotations__': {'name': str, 'shape': Any, 'deps': Any}, 'run': _rv_run, 'post_init': _rn_post_init,
                                    '__module__': MODULE, '__qualname__': 'RN', 'deps': None}))
RESULT_TYPES = {'RV': RV, 'RJ': RJ, 'RZ': RZ, 'RS': RS, 'RN': RN}


# ---------------------------------------------------------------------------------------------------
# chatty tasks (C19): emit uniquely-tokenised messages through the labtech logger, stdout and stderr
# ---------------------------------------------------------------------------------------------------

def _chat_run(self):
    trace(f'S {self.name} {os.getpid()} {os.getppid()} {threading.get_native_id()} Chat')
    gate_wait(self.name)
    for d in walk_tasks(self.deps):
        d.result
    def tok(t):
        # tokens are stored in pieces and only assembled here, so that they never occur in repr(task) (which labtech logs)
        return ':'.join(str(x) for x in t) if isinstance(t, (tuple, list)) else t
    for act in self.script:
        kind = act[0]
        if kind == 'log':
            getattr(labtech.logger, act[1])(tok(act[2]))
        elif kind == 'logargs':
            # lazy %-formatting with an argument that cannot be pickled
            labtech.logger.info(tok(act[1]) + ' %s %s', threading.Lock(), len)
        elif kind == 'print':
            print((act[3] if len(act) > 3 else '') + tok(act[1]), flush=bool(act[2]))      # act[3]: leading whitespace (an indented row)
        elif kind == 'err':
            sys.stderr.write(tok(act[1]))
        elif kind == 'errln':
            print((act[2] if len(act) > 2 else '') + tok(act[1]), file=sys.stderr)
        elif kind == 'flush':
            sys.stdout.flush()
            sys.stderr.flush()
        elif kind == 'ws':
            print('   ')
        elif kind == 'burst':
            for i in range(act[1]):
                labtech.logger.info(f'{tok(act[2])}:{i}:')
        elif kind == 'raise':
            trace(f'E {self.name} Chat')
            raise CustomErr(f'chat task {self.name} fails after emitting')
        else:
            raise RuntimeError(f'harness: unknown chat action {act!r}')
    trace(f'E {self.name} Chat')
    return self.name


Chat = labtech.task(cache=None)(type('Chat', (), {
    '__annotations__': {'name': str, 'script': Any, 'deps': Any}, 'run': _chat_run, '__module__': MODULE, '__qualname__': 'Chat',
    'deps': None}))
