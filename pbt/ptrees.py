"""Parameter trees over labtech's documented value grammar, as JSON construction specs.

tree := {'k':'none'} | {'k':'bool','v':b} | {'k':'int','v':'<decimal>'} | {'k':'float','v':'<float.hex()|nan|inf|-inf>'}
      | {'k':'str','v':[codepoints]} | {'k':'enum','cls':name,'name':member,'mod':'vu'|'vu2'}
      | {'k':'list'|'tuple','items':[tree..]} | {'k':'dict'|'fdict','items':[[keystr_codepoints, tree]..]}
      | {'k':'task','type':name,'mod':'vu'|'vu2','fields':{field: tree}}
      | {'k':'bad','what': ...}   (unsupported leaf, C15 only)
"""
from __future__ import annotations

import decimal
import math
from typing import Any

from frozendict import frozendict
from hypothesis import strategies as st

from pbt.universe import vu, vu2

MODS = {'vu': vu, 'vu2': vu2}
FIELDS = {'PV': ['v'], 'PW': ['v'], 'M3': ['a', 'b', 'c'], 'ZV': ['v'], 'JV': ['v'], 'P2V': ['v'], 'NV': ['v'],
          'NVX': ['v'], 'TV': ['v'], 'PI': ['v']}


def s2cp(s: str) -> list[int]:
    return [ord(c) for c in s]


def cp2s(cps) -> str:
    return ''.join(chr(c) for c in cps)


class DictSub(dict):
    pass


class TupleSub(tuple):
    pass


class Opaque:
    def __repr__(self):
        return 'Opaque()'


def build(tree: dict) -> Any:
    k = tree['k']
    if k == 'none':
        return None
    if k == 'bool':
        return bool(tree['v'])
    if k == 'int':
        return int(tree['v'])
    if k == 'float':
        v = tree['v']
        return float(v) if v in ('nan', 'inf', '-inf') else float.fromhex(v)
    if k == 'str':
        return cp2s(tree['v'])
    if k == 'enum':
        return MODS[tree.get('mod', 'vu')].ENUMS[tree['cls']][tree['name']]
    if k == 'list':
        return [build(x) for x in tree['items']]
    if k == 'tuple':
        return tuple(build(x) for x in tree['items'])
    if k == 'tuplesub':
        return TupleSub(build(x) for x in tree['items'])
    if k == 'dict':
        return {cp2s(kk): build(v) for kk, v in tree['items']}
    if k == 'dictsub':
        return DictSub({cp2s(kk): build(v) for kk, v in tree['items']})
    if k == 'fdict':
        return frozendict({cp2s(kk): build(v) for kk, v in tree['items']})
    if k == 'task':
        cls = MODS[tree.get('mod', 'vu')].PARAM_TYPES[tree['type']]
        return cls(**{f: build(v) for f, v in tree['fields'].items()})
    if k == 'bad':
        w = tree['what']
        return {'bytes': b'x', 'set': {1}, 'complex': 1j, 'object': Opaque(), 'decimal': decimal.Decimal('1'),
                'bytearray': bytearray(b'y'), 'frozenset': frozenset({1}), 'range': range(2), 'type': int,
                'func': len}[w]
    if k == 'badkeydict':
        bad_key = {'int': 1, 'none': None, 'tuple': (1,), 'tuple0': (), 'tuple2': (0, 1), 'float': 1.5, 'bool': True, 'bytes': b'k', 'enum': vu.Color.RED,
                   'frozenset': frozenset({1})}[tree['key']]
        d = {cp2s(kk): build(v) for kk, v in tree['items']}
        d[bad_key] = build(tree['value'])
        return d
    raise ValueError(tree)


def canon(tree: dict) -> Any:
    """Canonical, type-tagged form: list==tuple, dict==frozendict (order-insensitive), enum aliases resolved,
    +0.0 == -0.0 (left unasserted), NaN canonical. Two trees with different canon() are 'distinct tasks/values'."""
    k = tree['k']
    if k == 'none':
        return ('none',)
    if k == 'bool':
        return ('bool', bool(tree['v']))
    if k == 'int':
        return ('int', int(tree['v']))
    if k == 'float':
        v = build(tree)
        if math.isnan(v):
            return ('float', 'nan')
        if v == 0.0:
            return ('float', '0')
        return ('float', v.hex() if not math.isinf(v) else repr(v))
    if k == 'str':
        return ('str', tuple(tree['v']))
    if k == 'enum':
        m = build(tree)
        return ('enum', type(m).__module__, type(m).__qualname__, m.name)
    if k in ('list', 'tuple', 'tuplesub'):
        return ('seq', tuple(canon(x) for x in tree['items']))
    if k in ('dict', 'fdict', 'dictsub'):
        d = {}
        for kk, v in tree['items']:
            d[tuple(kk)] = canon(v)      # later duplicates win, as in a dict display
        return ('map', tuple(sorted(d.items())))
    if k == 'task':
        mod = MODS[tree.get('mod', 'vu')]
        cls = mod.PARAM_TYPES[tree['type']]
        fields = dict(tree['fields'])
        out = []
        for f in FIELDS[tree['type']]:
            if f in fields:
                out.append((f, canon(fields[f])))
            else:
                out.append((f, ('none',)))      # M3.c default
        return ('task', cls.__module__, cls.__qualname__, tuple(out))
    raise ValueError(tree)


def respell(tree: dict) -> dict:
    """list<->tuple and dict<->frozendict re-spelling at every depth (same task after normalisation)."""
    k = tree['k']
    if k in ('list', 'tuple'):
        return {'k': 'tuple' if k == 'list' else 'list', 'items': [respell(x) for x in tree['items']]}
    if k in ('dict', 'fdict'):
        return {'k': 'fdict' if k == 'dict' else 'dict', 'items': [[kk, respell(v)] for kk, v in tree['items']]}
    if k == 'task':
        return {**tree, 'fields': {f: respell(v) for f, v in tree['fields'].items()}}
    return tree


def depth(tree: dict) -> int:
    k = tree['k']
    if k in ('list', 'tuple', 'tuplesub'):
        return 1 + max([depth(x) for x in tree['items']], default=0)
    if k in ('dict', 'fdict', 'dictsub'):
        return 1 + max([depth(v) for _, v in tree['items']], default=0)
    if k == 'task':
        return 1 + max([depth(v) for v in tree['fields'].values()], default=0)
    if k == 'badkeydict':
        return 1
    return 0


def contains(tree: dict, kinds) -> bool:
    k = tree['k']
    if k in kinds:
        return True
    if k in ('list', 'tuple', 'tuplesub'):
        return any(contains(x, kinds) for x in tree['items'])
    if k in ('dict', 'fdict', 'dictsub', 'badkeydict'):
        return any(contains(v, kinds) for _, v in tree['items'])
    if k == 'task':
        return any(contains(v, kinds) for v in tree['fields'].values())
    return False


def nested_depth_of(tree: dict, kinds, d: int = 0) -> int:
    """Max container depth at which a node of the given kinds occurs (-1 if none)."""
    k = tree['k']
    best = d if k in kinds else -1
    kids = []
    if k in ('list', 'tuple', 'tuplesub'):
        kids = tree['items']
    elif k in ('dict', 'fdict', 'dictsub', 'badkeydict'):
        kids = [v for _, v in tree['items']]
    elif k == 'task':
        kids = list(tree['fields'].values())
    for x in kids:
        best = max(best, nested_depth_of(x, kinds, d + 1))
    return best


# ---------------------------------------------------------------------------------------------------
# strategies
# ---------------------------------------------------------------------------------------------------

MARKER_KEYS = ['_is_task', '_is_enum', '__class__', 'name', 'v', 'a']
PLAIN_KEYS = ['k', 'x', '', 'K', 'k.1', 'é', '\U0001F600']
CLASSY_STRINGS = ['pbt.universe.vu.Color', 'pbt.universe.vu.PV', 'RED', 'pickle__PV__', 'builtins.int']

ENUM_MEMBERS = [('Color', 'RED', 'vu'), ('Color', 'GREEN', 'vu'), ('Color', 'BLUE', 'vu'), ('Color', 'CRIMSON', 'vu'),
                ('Num', 'ONE', 'vu'), ('Num', 'TWO', 'vu'), ('Num', 'ZERO', 'vu'), ('Sx', 'A', 'vu'), ('Sx', 'RED', 'vu'),
                ('Sx', 'EMPTY', 'vu'), ('Other', 'RED', 'vu'), ('Other', 'GREEN', 'vu'), ('Color', 'RED', 'vu2'),
                ('Color', 'GREEN', 'vu2')]


def str_tree(markers: bool = True):
    alphabet = st.one_of(
        st.sampled_from(CLASSY_STRINGS + ['', 'a', '1', 'True', 'None', 'null', '1.0', ' ', '\n', '"', '\\', 'a/b']) if markers
        else st.sampled_from(['', 'a', 'b']),
        st.text(max_size=6),
        st.text(alphabet=st.characters(min_codepoint=0xD800, max_codepoint=0xDFFF), min_size=1, max_size=2),   # lone surrogates
        st.text(alphabet=st.characters(min_codepoint=0x10000, max_codepoint=0x10FFFF), min_size=1, max_size=2),
    )
    return alphabet.map(lambda s: {'k': 'str', 'v': _no_surrogate_pairs(s2cp(s))})


def _no_surrogate_pairs(cps: list) -> list:
    """Lone surrogates are kept (a Python str may hold them and JSON round-trips them), but a high surrogate immediately
    followed by a low one is dropped to a lone high surrogate: that sequence is indistinguishable from the astral character in
    JSON/UTF-16, is not valid Unicode text, and is outside what the documentation promises for `str` parameters."""
    out = []
    for c in cps:
        if out and 0xD800 <= out[-1] <= 0xDBFF and 0xDC00 <= c <= 0xDFFF:
            continue
        out.append(c)
    return out


def float_tree(nan: bool):
    specials = ['inf', '-inf'] + (['nan'] if nan else [])
    return st.one_of(
        st.sampled_from(specials).map(lambda v: {'k': 'float', 'v': v}),
        st.floats(allow_nan=False, allow_infinity=False).map(lambda f: {'k': 'float', 'v': f.hex()}),
        st.sampled_from([0.0, -0.0, 1.0, 2.0, 0.1, 5e-324, 1e308, -1.0]).map(lambda f: {'k': 'float', 'v': f.hex()}),
    )


def scalar_tree(nan: bool = False, markers: bool = True):
    return st.one_of(
        st.just({'k': 'none'}),
        st.booleans().map(lambda b: {'k': 'bool', 'v': b}),
        st.one_of(st.integers(-3, 3), st.integers(), st.sampled_from([2**64, -2**64, 2**63 - 1, 10**30])).map(
            lambda i: {'k': 'int', 'v': str(i)}),
        float_tree(nan),
        str_tree(markers),
        st.sampled_from(ENUM_MEMBERS).map(lambda t: {'k': 'enum', 'cls': t[0], 'name': t[1], 'mod': t[2]}),
    )


def key_strategy(markers: bool = True):
    keys = (MARKER_KEYS + PLAIN_KEYS) if markers else PLAIN_KEYS
    return st.one_of(st.sampled_from(keys), st.text(max_size=3)).map(s2cp)


TASK_TYPES_ALL = [('PV', 'vu'), ('PW', 'vu'), ('M3', 'vu'), ('ZV', 'vu'), ('JV', 'vu'), ('P2V', 'vu'), ('NV', 'vu'),
                  ('NVX', 'vu'), ('TV', 'vu'), ('TV', 'vu2'), ('PV', 'vu2'), ('PI', 'vu')]


def value_tree(*, nan: bool = False, markers: bool = True, max_leaves: int = 12, task_types=None, subclasses: bool = False):
    task_types = task_types or TASK_TYPES_ALL

    def extend(children):
        seqs = ['list', 'tuple'] + (['tuplesub'] if subclasses else [])
        maps = ['dict', 'fdict'] + (['dictsub'] if subclasses else [])
        return st.one_of(
            st.builds(lambda k, items: {'k': k, 'items': items}, st.sampled_from(seqs), st.lists(children, max_size=4)),
            st.builds(lambda k, items: {'k': k, 'items': [list(i) for i in items]}, st.sampled_from(maps),
                      st.lists(st.tuples(key_strategy(markers), children), max_size=4, unique_by=lambda kv: tuple(kv[0]))),
            task_tree_from(children, task_types),
        )

    return st.recursive(scalar_tree(nan, markers), extend, max_leaves=max_leaves)


def task_tree_from(children, task_types=None):
    task_types = task_types or TASK_TYPES_ALL

    def mk(tt, vals):
        name, mod = tt
        fs = FIELDS[name]
        fields = {f: v for f, v in zip(fs, vals)}
        if name == 'M3' and len(vals) >= 3 and vals[2] is None:
            fields.pop('c', None)
        return {'k': 'task', 'type': name, 'mod': mod, 'fields': {f: v for f, v in fields.items() if v is not None}
                if name == 'M3' else fields}

    def for_type(tt):
        n = len(FIELDS[tt[0]])
        if tt[0] == 'M3':
            return st.tuples(children, children, st.one_of(st.none(), children)).map(lambda vals: mk(tt, list(vals)))
        return st.tuples(*[children] * n).map(lambda vals: mk(tt, list(vals)))

    return st.sampled_from(task_types).flatmap(for_type)


def task_tree(**kw):
    """A task (top level) carrying an arbitrary supported parameter tree."""
    task_types = kw.pop('task_types', None)
    return task_tree_from(value_tree(task_types=task_types, **kw), task_types)


# ---------------------------------------------------------------------------------------------------
# single typed edits (C07 injectivity pairs)
# ---------------------------------------------------------------------------------------------------

def _paths(tree: dict, path=()):
    yield path, tree
    k = tree['k']
    if k in ('list', 'tuple', 'tuplesub'):
        for i, x in enumerate(tree['items']):
            yield from _paths(x, path + (('i', i),))
    elif k in ('dict', 'fdict', 'dictsub'):
        for i, (_, v) in enumerate(tree['items']):
            yield from _paths(v, path + (('d', i),))
    elif k == 'task':
        for f, v in tree['fields'].items():
            yield from _paths(v, path + (('f', f),))


def _replace(tree: dict, path, new: dict) -> dict:
    if not path:
        return new
    (kind, key), rest = path[0], path[1:]
    if kind == 'i':
        items = list(tree['items'])
        items[key] = _replace(items[key], rest, new)
        return {**tree, 'items': items}
    if kind == 'd':
        items = [list(x) for x in tree['items']]
        items[key][1] = _replace(items[key][1], rest, new)
        return {**tree, 'items': items}
    fields = dict(tree['fields'])
    fields[key] = _replace(fields[key], rest, new)
    return {**tree, 'fields': fields}


LOOKALIKES = {
    # value -> other values that print / compare alike but are different parameter values
    'int1': [{'k': 'bool', 'v': True}, {'k': 'float', 'v': (1.0).hex()}, {'k': 'str', 'v': s2cp('1')},
             {'k': 'enum', 'cls': 'Num', 'name': 'ONE', 'mod': 'vu'}],
}


@st.composite
def mutated_pair(draw, **kw):
    """(tree, tree') where tree' differs from tree by one typed edit at a random position."""
    t = draw(task_tree(**kw))
    paths = list(_paths(t))
    path, node = draw(st.sampled_from(paths))
    k = node['k']
    choices = []
    if k == 'none':
        choices = [{'k': 'bool', 'v': False}, {'k': 'int', 'v': '0'}, {'k': 'str', 'v': s2cp('None')}, {'k': 'tuple', 'items': []},
                   {'k': 'dict', 'items': []}, {'k': 'str', 'v': []}]
    elif k == 'bool':
        choices = [{'k': 'int', 'v': str(int(node['v']))}, {'k': 'float', 'v': float(node['v']).hex()},
                   {'k': 'bool', 'v': not node['v']}, {'k': 'str', 'v': s2cp(str(bool(node['v'])))}]
    elif k == 'int':
        i = int(node['v'])
        choices = [{'k': 'int', 'v': str(i + 1)}, {'k': 'float', 'v': float(i).hex()} if abs(i) < 2**53 else {'k': 'none'},
                   {'k': 'str', 'v': s2cp(str(i))}]
        if i in (0, 1):
            choices.append({'k': 'bool', 'v': bool(i)})
        if i in (0, 1, 2):
            choices.append({'k': 'enum', 'cls': 'Num', 'name': {0: 'ZERO', 1: 'ONE', 2: 'TWO'}[i], 'mod': 'vu'})
    elif k == 'float':
        f = build(node)
        choices = [{'k': 'str', 'v': s2cp(repr(f))}, {'k': 'none'}]
        if f == f and not math.isinf(f):
            choices.append({'k': 'float', 'v': math.nextafter(f, math.inf).hex()})
            if f == int(f) and abs(f) < 2**53 and f != 0:
                choices.append({'k': 'int', 'v': str(int(f))})
    elif k == 'str':
        s = node['v']
        choices = [{'k': 'str', 'v': s + [97]}, {'k': 'tuple', 'items': [{'k': 'str', 'v': s}]}, {'k': 'none'}]
        if s:
            choices.append({'k': 'str', 'v': s[:-1]})
    elif k == 'enum':
        m = build(node)
        choices = [{'k': 'str', 'v': s2cp(m.name)},
                   {'k': 'dict', 'items': [[s2cp('_is_enum'), {'k': 'bool', 'v': True}],
                                           [s2cp('__class__'), {'k': 'str', 'v': s2cp(f'{type(m).__module__}.{type(m).__qualname__}')}],
                                           [s2cp('name'), {'k': 'str', 'v': s2cp(m.name)}]]}]
        v = m.value
        if isinstance(v, bool):
            pass
        elif isinstance(v, int):
            choices.append({'k': 'int', 'v': str(int(v))})
        elif isinstance(v, str):
            choices.append({'k': 'str', 'v': s2cp(str(v))})
        others = [e for e in ENUM_MEMBERS if canon({'k': 'enum', 'cls': e[0], 'name': e[1], 'mod': e[2]}) != canon(node)]
        o = draw(st.sampled_from(others))
        choices.append({'k': 'enum', 'cls': o[0], 'name': o[1], 'mod': o[2]})
    elif k in ('list', 'tuple'):
        items = node['items']
        choices = [{'k': k, 'items': items + [{'k': 'none'}]}, {'k': 'dict', 'items': []} if not items else {'k': k, 'items': items[:-1]},
                   {'k': k, 'items': [{'k': 'tuple', 'items': items}]}]
        if len(items) >= 2 and canon(items[0]) != canon(items[1]):
            choices.append({'k': k, 'items': [items[1], items[0]] + items[2:]})
        if not items:
            choices.append({'k': 'none'})
    elif k in ('dict', 'fdict'):
        items = node['items']
        choices = [{'k': k, 'items': items + [[s2cp('zz_new'), {'k': 'none'}]]}]
        if items:
            choices.append({'k': k, 'items': items[:-1]})
            kk, v = items[0]
            choices.append({'k': k, 'items': [[kk + [95], v]] + items[1:]})
        else:
            choices += [{'k': 'tuple', 'items': []}, {'k': 'none'}]
    elif k == 'task':
        name, mod = node['type'], node.get('mod', 'vu')
        twins = {('PV', 'vu'): [('PW', 'vu'), ('PV', 'vu2'), ('NV', 'vu')], ('TV', 'vu'): [('TV', 'vu2')], ('TV', 'vu2'): [('TV', 'vu')],
                 ('NV', 'vu'): [('NVX', 'vu')], ('NVX', 'vu'): [('NV', 'vu')], ('PW', 'vu'): [('PV', 'vu')], ('PV', 'vu2'): [('PV', 'vu')],
                 ('ZV', 'vu'): [('PV', 'vu')], ('JV', 'vu'): [('PV', 'vu')], ('P2V', 'vu'): [('PV', 'vu')], ('PI', 'vu'): [('PV', 'vu')]}
        for tn, tm in twins.get((name, mod), []):
            choices.append({**node, 'type': tn, 'mod': tm})
        if name == 'M3':
            f = node['fields']
            if canon(f['a']) != canon(f['b']):
                choices.append({**node, 'fields': {**f, 'a': f['b'], 'b': f['a']}})
            # task look-alike dict
        ser_fields = [[s2cp(fn), fv] for fn, fv in node['fields'].items()]
        cls = MODS[mod].PARAM_TYPES[name]
        if path:   # only as a nested value (top level must be a task)
            choices.append({'k': 'dict', 'items': [[s2cp('_is_task'), {'k': 'bool', 'v': True}],
                                                   [s2cp('__class__'), {'k': 'str', 'v': s2cp(f'{cls.__module__}.{cls.__qualname__}')}]] + ser_fields})
    choices = [c for c in choices if canon(c) != canon(node)]
    if not choices:
        if not path:
            f0 = FIELDS[t['type']][0]
            path, node = ((('f', f0),), t['fields'][f0])
            k = node['k']
        new = {'k': 'str', 'v': s2cp('~edited~')}
    else:
        new = draw(st.sampled_from(choices))
    t2 = _replace(t, path, new)
    from hypothesis import assume
    assume(canon(t2) != canon(t))
    return {'a': t, 'b': t2, 'edit_depth': len(path), 'edit_kind': f'{k}->{new["k"]}'}
