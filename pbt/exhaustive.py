"""Exhaustive small-scope engine for the coordinator: every DAG shape up to a node bound (every dependency subset), type and
failure assignment from a small alphabet, worker counts, and - for each - EVERY schedule the ControlledRunner's chooser can
produce (stateless depth-first search over its decision tree: idle rounds, batch sizes, batch orders)."""
from __future__ import annotations

import itertools
from typing import Callable, Iterator

from pbt import core, dagrun
from pbt.runners import PathChooser


def small_specs(max_nodes: int, types=('N1', 'NN'), modes=('ok',), workers=(1, 2), request='sinks+all', reads=(True,)) -> Iterator[dict]:
    for n in range(1, max_nodes + 1):
        dep_choices = [list(_subsets(range(i))) for i in range(n)]
        for deps in itertools.product(*dep_choices):
            for ts in itertools.product(types, repeat=n):
                for ms in itertools.product(modes, repeat=n):
                    if sum(1 for m in ms if m != 'ok') > 1:
                        continue
                    for rd in itertools.product(reads, repeat=n):
                        nodes = []
                        for i in range(n):
                            d = deps[i]
                            sh = {'s': None} if not d else ({'ref': d[0], 'fresh': False} if len(d) == 1 else {'list': [{'ref': j, 'fresh': False} for j in d]})
                            nodes.append({'id': i, 'type': ts[i], 'name': f'n{i}', 'mode': ms[i], 'read': rd[i], 'payload': None, 'deps': sh})
                        has_dependent = {j for d in deps for j in d}
                        sinks = [i for i in range(n) if i not in has_dependent]
                        reqs = [sinks]
                        if request == 'sinks+all' and len(sinks) != n:
                            reqs.append(list(range(n)))
                        for req in reqs:
                            for w in workers:
                                yield {'nodes': nodes, 'requested': [{'ref': i, 'fresh': False} for i in req],
                                       'lab': {'backend': 'controlled', 'max_workers': w, 'continue_on_failure': True, 'bust_cache': False,
                                               'storage': 'none', 'displays': False, 'context': {}},
                                       'pre_cached': [], 'schedule': []}


def _subsets(items):
    items = list(items)
    for r in range(len(items) + 1):
        for c in itertools.combinations(items, r):
            yield list(c)


def all_schedules(spec: dict, run: Callable[[dict, PathChooser], object], max_paths: int = 4000) -> Iterator[tuple[list, object]]:
    """Depth-first enumeration of every decision path of the chooser for this spec. `run(spec, chooser)` executes the case."""
    path: list[int] = []
    count = 0
    while True:
        ch = PathChooser(path)
        result = run(spec, ch)
        trail = ch.trail          # [(branching factor, choice taken)]
        yield [v for _, v in trail], result
        count += 1
        if count >= max_paths:
            return
        # next path: odometer increment on the decisions actually taken
        k = len(trail) - 1
        while k >= 0 and trail[k][1] + 1 >= trail[k][0]:
            k -= 1
        if k < 0:
            return
        path = [v for _, v in trail[:k]] + [trail[k][1] + 1]


def run_exhaustive(rec: core.Recorder, engine: str, specs_iter, judge: Callable[[dict, object], core.CaseResult], shard: int, nshards: int,
                   idle_rounds: int = 1) -> None:
    n_specs = n_paths = 0
    reported: set[str] = set()
    truncated = 0
    for idx, spec in enumerate(specs_iter):
        if idx % nshards != shard:
            continue
        n_specs += 1

        def run(sp, ch):
            return dagrun.execute_case(sp, chooser=ch, idle_rounds=idle_rounds)
        paths_here = 0
        for path, obs in all_schedules(spec, run):
            paths_here += 1
            n_paths += 1
            case = {**spec, 'path': path}
            res = judge(case, obs)
            rec.case(engine, case, res)
            bad = [f for f in rec.triage(engine, case, res) if f.signature not in reported]
            if bad:
                rec.violation(engine, case, bad, res.summary)
                reported.update(f.signature for f in bad)
        if paths_here >= 4000:
            truncated += 1
    rec.exhaustive[f'{engine}:shard{shard}'] = {'complete': truncated == 0, 'specs': n_specs, 'schedules': n_paths, 'truncated_specs': truncated}
