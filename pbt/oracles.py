"""Oracles over the observation of one DAG run (pbt.dagrun.Obs), one function per property clause.
Each returns a list of core.Finding. They are validity predicates written from the property statements:
any behaviour the statement allows is accepted."""
from __future__ import annotations

from typing import Any

from pbt import refmodel, specs
from pbt.core import Finding
from pbt.universe import vu
from pbt.values import digest


def expect_for(spec: dict, obs) -> refmodel.Expect:
    lab = spec['lab']
    backend = lab['backend']
    storage_null = lab.get('storage', 'local') == 'none'
    return refmodel.evaluate(spec, obs.model_before, context=obs.context, bust=lab.get('bust_cache', False),
                             storage_null=storage_null, corrupt=set(getattr(obs, 'corrupt', ())))


def exc_text(ex) -> str:
    if ex is None:
        return ''
    cause = ex.__cause__
    s = f'{type(ex).__module__}.{type(ex).__qualname__}: {ex}'
    if cause is not None:
        s += f' <- {type(cause).__module__}.{type(cause).__qualname__}: {cause}'
    return s[:600]


def exc_site(ex) -> str:
    """Innermost labtech frame of an exception: part of a root-cause signature."""
    import traceback
    tb = traceback.extract_tb(ex.__traceback__) if ex is not None and ex.__traceback__ else []
    site = 'unknown'
    for fr in tb:
        fn = fr.filename.replace('\\', '/')
        if '/labtech/' in fn:
            site = f"{fn.split('/labtech/', 1)[1]}:{fr.name}"
    return site


# ---------------------------------------------------------------------------------------------------
# C01: return value
# ---------------------------------------------------------------------------------------------------

def c01_return_value(spec: dict, obs, ex: refmodel.Expect) -> list[Finding]:
    out: list[Finding] = []
    if obs.timeout:
        return []   # a hang is C11's subject; the case is counted inconclusive here
    if obs.outcome != 'return':
        return [Finding(f'C01:all-succeed-but-raised:{type(obs.exc).__name__}@{exc_site(obs.exc)}', exc_text(obs.exc))]
    nodes = {n['id']: n for n in spec['nodes']}
    want = [(nodes[i]['name'], v) for i, v in ex.returned(spec)]
    got = obs.returned
    if [n for n, _ in got] != [n for n, _ in want]:
        out.append(Finding('C01:keys-differ', f'returned keys {[n for n, _ in got]} expected {[n for n, _ in want]}'))
        return out
    for (n, gv), (_, wv) in zip(got, want):
        if gv != wv:
            out.append(Finding('C01:value-differs', f'node {n}: returned {gv!r} expected {wv!r}'))
            break
    if not obs.returned_key_ids_ok:
        out.append(Finding('C01:key-not-a-requested-object', 'a returned key is not one of the requested task objects'))
    return out


# ---------------------------------------------------------------------------------------------------
# history helpers
# ---------------------------------------------------------------------------------------------------

class Hist:
    """Indexes the runner-level event log and the run() trace of one run."""

    def __init__(self, spec: dict, obs, ex: refmodel.Expect):
        self.spec = spec
        self.obs = obs
        self.ex = ex
        self.nodes = {n['id']: n for n in spec['nodes']}
        self.by_name = {n['name']: n for n in spec['nodes']}
        self.controlled = spec['lab']['backend'] == 'controlled'
        self.req = [r['ref'] for r in spec['requested']]
        self.closure = specs.closure(spec, self.req)
        self.events = obs.events
        self.trace = obs.trace
        mw = spec['lab'].get('max_workers')
        if spec['lab']['backend'] == 'serial':
            self.max_workers = 1
        else:
            self.max_workers = mw if mw is not None else None   # None => cpu default, resolved by caller

    def nid(self, name: str) -> int:
        return self.by_name[name]['id']

    def type_of(self, name: str) -> str:
        return self.by_name[name]['type']


def trace_S(obs) -> list[str]:
    return [r[1] for r in obs.trace if r[0] == 'S']


# ---------------------------------------------------------------------------------------------------
# C02: ordering and dependency reads
# ---------------------------------------------------------------------------------------------------

def c02_ordering(spec: dict, obs, ex: refmodel.Expect) -> list[Finding]:
    out: list[Finding] = []
    h = Hist(spec, obs, ex)
    # (a) runner level: a task is submitted only after every task in its parameters has been handed back by wait()
    finished: set[str] = set()
    for ev in obs.events:
        if ev[0] == 'yield':
            finished.add(ev[1])
        elif ev[0] == 'submit' and not ev[2]:
            node = h.by_name[ev[1]]
            for j in specs.direct_deps(node):
                dn = h.nodes[j]['name']
                if dn not in finished:
                    out.append(Finding('C02:submitted-before-dependency-finished',
                                       f'{ev[1]} submitted for execution before dependency {dn} finished'))
    # (b) trace level (real processes): S t comes after the end record of every executed dependency
    ended: set[str] = set()
    for r in obs.trace:
        if r[0] in ('E', 'X', 'K'):
            ended.add(r[1])
        elif r[0] == 'S':
            node = h.by_name[r[1]]
            for j in specs.direct_deps(node):
                dn = h.nodes[j]['name']
                if ex.status.get(j) != 'loaded' and j not in ex.loaded and dn not in ended:
                    out.append(Finding('C02:run-began-before-dependency-ended',
                                       f'run() of {r[1]} began before dependency {dn} ended'))
    # (c) every read inside run() yields the dependency's real value of this run, or raises TaskError if it failed
    for r in obs.trace:
        if r[0] != 'R':
            continue
        reader, dep = r[1], r[2]
        j = h.nid(dep)
        st = ex.status.get(j)
        if st in ('ok', 'loaded'):
            if r[3] == 'EXC':
                out.append(Finding(f'C02:read-of-successful-dependency-raised:{r[4]}',
                                   f'{reader} reading {dep}.result raised {r[4]}'))
            elif r[3] != digest(ex.value[j]):
                out.append(Finding('C02:read-yielded-wrong-value', f'{reader} read {dep}: digest {r[3]} != {digest(ex.value[j])}'))
        elif st == 'failed':
            if r[3] != 'EXC':
                out.append(Finding('C02:read-of-failed-dependency-returned-a-value', f'{reader} read failed {dep} and got digest {r[3]}'))
            elif r[4] != 'labtech.exceptions.TaskError':
                out.append(Finding(f'C02:read-of-failed-dependency-raised:{r[4]}', f'{reader} reading failed {dep} raised {r[4]}, not TaskError'))
    # (d) a failed dependency must not abort the run in the caller instead of raising at the read
    if obs.outcome == 'raise' and not obs.timeout and spec['lab'].get('continue_on_failure', True):
        if isinstance(obs.exc, KeyError) and exc_site(obs.exc) != 'lab.py:run_tasks':
            out.append(Finding(f'C02:failed-dependency-aborted-run-in-caller:KeyError@{exc_site(obs.exc)}', exc_text(obs.exc)))
    return _dedupe(out)


def _dedupe(fs: list[Finding]) -> list[Finding]:
    seen, out = set(), []
    for f in fs:
        if f.signature not in seen:
            seen.add(f.signature)
            out.append(f)
    return out


# ---------------------------------------------------------------------------------------------------
# C03: at most once, only if needed, result_meta on every instance
# ---------------------------------------------------------------------------------------------------

def walk_instances(built, ex: refmodel.Expect):
    """Caller-side task objects that the statement says must be marked: the requested objects and, recursively,
    the objects inside parameters of executed (not loaded) tasks. Yields (nid, object)."""
    seen: set[int] = set()
    stack = list(built.requested)
    while stack:
        t = stack.pop()
        if id(t) in seen:
            continue
        seen.add(id(t))
        nid = built.id_of(t)
        yield nid, t
        if nid in ex.executed:
            stack.extend(vu.walk_tasks(t.deps))


def c03_once_only_if_needed(spec: dict, obs, ex: refmodel.Expect) -> list[Finding]:
    out: list[Finding] = []
    h = Hist(spec, obs, ex)
    aborted = obs.outcome == 'raise'
    # executions (raw records: including tasks that are not nodes of the spec, see dagrun.split_foreign)
    s_names = [r[1] for r in getattr(obs, 'raw_trace', obs.trace) if r[0] == 'S']
    counts: dict[str, int] = {}
    for n in s_names:
        counts[n] = counts.get(n, 0) + 1
    for n, c in counts.items():
        if n not in h.by_name:
            out.append(Finding('C03:executed-outside-closure', f'{n} is not a task of the run at all (not a parameter of any requested task)'))
            continue
        nid = h.nid(n)
        if c > 1:
            out.append(Finding('C03:executed-more-than-once', f'{n} executed {c} times'))
        if nid not in h.closure:
            out.append(Finding('C03:executed-outside-closure', f'{n} is outside the requested closure'))
        elif ex.status.get(nid) == 'loaded' or nid in ex.loaded:
            out.append(Finding('C03:cached-task-executed', f'{n} is cached and bust_cache is off, but run() was called'))
        elif nid not in ex.status:
            out.append(Finding('C03:dependency-of-cached-task-touched', f'{n} is only needed by cached tasks but was executed'))
    if not aborted:
        for nid in ex.executed:
            n = h.nodes[nid]['name']
            if counts.get(n, 0) == 0:
                out.append(Finding('C03:needed-task-not-executed', f'{n} should have executed'))
    # submissions (loads are visible only here)
    subs: dict[str, list] = {}
    for ev in getattr(obs, 'raw_events', obs.events):
        if ev[0] == 'submit':
            subs.setdefault(ev[1], []).append(ev[2])
    for n, flags in subs.items():
        if n not in h.by_name:
            out.append(Finding('C03:unneeded-task-submitted', f'{n} is not a task of the run at all'))
            continue
        nid = h.nid(n)
        if len(flags) > 1:
            out.append(Finding('C03:submitted-more-than-once', f'{n} submitted {len(flags)} times'))
        if nid not in ex.status:
            out.append(Finding('C03:unneeded-task-submitted', f'{n} submitted although nothing needs it'))
            continue
        want_load = ex.status[nid] == 'loaded' or nid in ex.loaded
        if flags[0] != want_load:
            out.append(Finding('C03:load-vs-execute-decision-wrong', f'{n} submitted with use_cache={flags[0]}, expected {want_load}'))
    if not aborted:
        for nid in ex.loaded:
            if h.nodes[nid]['name'] not in subs:
                out.append(Finding('C03:cached-task-not-loaded', f'{h.nodes[nid]["name"]} should have been loaded'))
        # result_meta on every instance
        metas: dict[int, list] = {}
        for nid, t in walk_instances(obs.built, ex):
            ok = ex.status.get(nid) in ('ok', 'loaded')
            if ok and t.result_meta is None:
                out.append(Finding('C03:instance-not-marked-with-result_meta', f'an instance of {t.name} has result_meta None'))
            if not ok and t.result_meta is not None:
                out.append(Finding('C03:failed-task-instance-has-result_meta', f'an instance of failed {t.name} has result_meta'))
            metas.setdefault(nid, []).append(t.result_meta)
        for nid, ms in metas.items():
            if any(m != ms[0] for m in ms):
                out.append(Finding('C03:instances-disagree-on-result_meta', f'{h.nodes[nid]["name"]}: {ms}'))
    return _dedupe(out)


# ---------------------------------------------------------------------------------------------------
# C04: limits
# ---------------------------------------------------------------------------------------------------

def c04_limits(spec: dict, obs, ex: refmodel.Expect, cpu_default: int) -> tuple[list[Finding], bool]:
    """Returns (findings, binding) where binding says a limit was actually reached at some instant."""
    out: list[Finding] = []
    h = Hist(spec, obs, ex)
    backend = spec['lab']['backend']
    mw = 1 if backend == 'serial' else (spec['lab'].get('max_workers') or cpu_default)
    binding = False
    # coordinator level: submitted-and-unfinished per type never exceeds max_parallel
    active: dict[str, set] = {}
    for ev in obs.events:
        if ev[0] == 'submit':
            t = h.type_of(ev[1])
            active.setdefault(t, set()).add(ev[1])
            lim = vu.MAX_PARALLEL[t]
            if lim is not None:
                if len(active[t]) > lim:
                    out.append(Finding('C04:per-type-limit-exceeded-at-submit', f'type {t}: {sorted(active[t])} in flight, max_parallel={lim}'))
                if len(active[t]) == lim:
                    binding = True
        elif ev[0] == 'yield':
            active.get(h.type_of(ev[1]), set()).discard(ev[1])
    # process level: every prefix of the run() trace
    running: dict[str, str] = {}
    pids = set()
    for r in obs.trace:
        if r[0] == 'S':
            running[r[1]] = r[5] if len(r) > 5 else h.type_of(r[1])
            pids.add(r[2])
            per: dict[str, int] = {}
            for n, t in running.items():
                per[t] = per.get(t, 0) + 1
            for t, c in per.items():
                lim = vu.MAX_PARALLEL.get(t)
                if lim is not None and c > lim:
                    out.append(Finding('C04:per-type-limit-exceeded-in-run', f'{c} tasks of type {t} inside run() at once: {sorted(running)}'))
            if backend != 'controlled':
                if len(running) > mw:
                    out.append(Finding('C04:max_workers-exceeded', f'{len(running)} tasks inside run() at once, max_workers={mw}: {sorted(running)}'))
                if len(running) == mw:
                    binding = True
        elif r[0] in ('E', 'X', 'K'):
            running.pop(r[1], None)
    if backend == 'serial':
        # one at a time, in the caller's process and thread
        me = str(__import__('os').getpid())
        for r in obs.trace:
            if r[0] == 'S' and (r[2] != me or r[4] != str(__import__('threading').get_native_id())):
                out.append(Finding('C04:serial-not-in-caller-thread', f'{r[1]} ran in pid {r[2]} tid {r[4]}'))
    return _dedupe(out), binding


# ---------------------------------------------------------------------------------------------------
# C05: maximal parallelism
# ---------------------------------------------------------------------------------------------------

def c05_maximal(spec: dict, obs, ex: refmodel.Expect, cpu_default: int) -> tuple[list[Finding], bool]:
    out: list[Finding] = []
    h = Hist(spec, obs, ex)
    backend = spec['lab']['backend']
    nontrivial = False
    submitted: set[str] = set()
    finished: set[str] = set()
    last_batch: set[str] = set()
    cancelled = False

    def runnable_but_not_submitted() -> list[str]:
        active: dict[str, int] = {}
        for n in submitted - finished:
            active[h.type_of(n)] = active.get(h.type_of(n), 0) + 1
        res = []
        for nid in ex.status:            # nodes the run needs
            n = h.nodes[nid]['name']
            if n in submitted:
                continue
            deps = [h.nodes[j]['name'] for j in ex.deps_in_run.get(nid, [])]
            if any(d not in finished for d in deps):
                continue
            lim = vu.MAX_PARALLEL[h.type_of(n)]
            if lim is not None and active.get(h.type_of(n), 0) >= lim:
                continue
            res.append(n)
        return res

    for ev in obs.events:
        kind = ev[0]
        if kind == 'submit':
            submitted.add(ev[1])
        elif kind == 'yield':
            finished.add(ev[1])
        elif kind == 'batch':
            last_batch = set(ev[1])
        elif kind == 'cancel':
            cancelled = True
        elif kind in ('wait', 'rest') and not cancelled:
            if kind == 'wait' and backend != 'controlled':
                continue   # real backends are judged at rest points only
            idle = runnable_but_not_submitted()
            if idle:
                out.append(Finding('C05:runnable-task-not-submitted-before-wait',
                                   f'at {kind}: {idle} runnable (dependencies finished, type below limit) but not started'))
            if kind == 'rest':
                blocked, unfinished, expected = ev[1], ev[2], ev[3]
                if len(blocked) < expected:
                    out.append(Finding('C05:free-worker-not-used-at-rest',
                                       f'at rest {len(blocked)} tasks inside run() ({blocked}), expected {expected}; submitted-unfinished {unfinished}'))
                # non-trivial: a newly unblocked node must be among the running ones, or a queued node took a freed slot
                for n in blocked:
                    deps = {h.nodes[j]['name'] for j in ex.deps_in_run.get(h.nid(n), [])}
                    if deps & last_batch:
                        nontrivial = True
                if len(unfinished) > len(blocked) and last_batch:
                    nontrivial = True
            else:
                running = set(ev[1])
                for n in running:
                    deps = {h.nodes[j]['name'] for j in ex.deps_in_run.get(h.nid(n), [])}
                    if deps & last_batch:
                        nontrivial = True
                if ev[2] and last_batch:
                    nontrivial = True
    if backend == 'serial':
        # exactly one task runs per wait(): S records strictly sequential (checked by C04); every wait that has
        # submitted-unfinished work must hand back exactly one task
        pass
    return _dedupe(out), nontrivial


# ---------------------------------------------------------------------------------------------------
# C10: failure isolation
# ---------------------------------------------------------------------------------------------------

def c10_isolation(spec: dict, obs, ex: refmodel.Expect) -> list[Finding]:
    out: list[Finding] = []
    h = Hist(spec, obs, ex)
    lab = spec['lab']
    failing = [i for i, s in ex.status.items() if s == 'failed']
    if obs.timeout:
        return []
    if lab.get('continue_on_failure', True):
        if obs.outcome != 'return':
            return [Finding(f'C10:continue_on_failure-but-raised:{type(obs.exc).__name__}@{exc_site(obs.exc)}', exc_text(obs.exc))]
        want = [(h.nodes[i]['name'], v) for i, v in ex.returned(spec)]
        got = obs.returned
        if [n for n, _ in got] != [n for n, _ in want]:
            out.append(Finding('C10:returned-keys-differ', f'returned {[n for n, _ in got]} expected {[n for n, _ in want]}'))
        else:
            for (n, gv), (_, wv) in zip(got, want):
                if gv != wv:
                    out.append(Finding('C10:returned-value-differs', f'{n}: {gv!r} != {wv!r}'))
        s_names = set(trace_S(obs))
        for nid in ex.executed:
            if h.nodes[nid]['name'] not in s_names:
                out.append(Finding('C10:independent-task-not-executed', f'{h.nodes[nid]["name"]} was never executed'))
        if lab.get('storage', 'local') != 'none':
            for nid, cached in obs.cached_after.items():
                want_c = nid in ex.new_model
                if cached and not want_c:
                    why = 'failed' if ex.status.get(nid) == 'failed' else 'never ran / not cacheable'
                    out.append(Finding(f'C10:entry-cached-for-task-that-{"failed" if why == "failed" else "should-not-be-cached"}',
                                       f'{h.nodes[nid]["name"]} is cached after the run ({why})'))
                if want_c and not cached:
                    out.append(Finding('C10:successful-task-not-cached', f'{h.nodes[nid]["name"]} succeeded but is not cached'))
    else:
        if not failing:
            if obs.outcome != 'return':
                out.append(Finding(f'C10:no-failure-but-raised:{type(obs.exc).__name__}', exc_text(obs.exc)))
            return out
        if obs.outcome != 'raise':
            return [Finding('C10:failure-not-raised', f'nodes {failing} fail but run_tasks returned normally')]
        from labtech.exceptions import LabError
        if not isinstance(obs.exc, LabError):
            out.append(Finding(f'C10:raised-not-LabError:{type(obs.exc).__name__}@{exc_site(obs.exc)}', exc_text(obs.exc)))
        else:
            cause = obs.exc.__cause__
            allowed = set()
            strict = True
            for i in failing:
                why = ex.why[i]
                if why.startswith('raise:'):
                    name = why.split(':', 1)[1]
                    allowed.add(name)
                    if name == 'UnpicklableErr' and lab['backend'] != 'serial':
                        strict = False
                elif why.startswith('flag:'):
                    allowed.add('CustomErr')
                elif why in ('kill9', 'kill15', 'exit0'):
                    allowed.add('TaskDiedError')
                elif why == 'exit':
                    allowed.add('SystemExit')
                elif why == 'baseexc':
                    allowed.add('CustomBase')
                elif why == 'raisefrom':
                    allowed.add('CustomErr')
                elif why.startswith('dep:'):
                    allowed.add('TaskError')
                elif why == 'corrupt-cache':
                    strict = False
                elif why == 'unpicklable':
                    strict = False
            if obs.started_after_raise:
                out.append(Finding('C10:task-started-after-run_tasks-raised', f'{obs.started_after_raise} started after the raise'))
            if cause is None:
                out.append(Finding('C10:LabError-without-cause', exc_text(obs.exc)))
            elif strict and type(cause).__name__ not in allowed:
                out.append(Finding(f'C10:LabError-cause-is-not-the-tasks-exception:{type(cause).__name__}',
                                   f'{exc_text(obs.exc)}; failing nodes raise {sorted(allowed)}'))
    return _dedupe(out)


# ---------------------------------------------------------------------------------------------------
# C11: termination (logical detector on the ControlledRunner; watchdog on real backends)
# ---------------------------------------------------------------------------------------------------

def c11_terminates(spec: dict, obs, ex: refmodel.Expect) -> list[Finding]:
    out: list[Finding] = []
    n = len(spec['nodes'])
    waits = 0
    for ev in obs.events:
        if ev[0] == 'wait':
            waits += 1
            if spec['lab']['backend'] == 'controlled' and not ev[1] and not ev[2]:
                out.append(Finding('C11:waiting-with-nothing-executing-or-runnable',
                                   'wait() called while no task is in flight or queued'))
    if spec['lab']['backend'] == 'controlled' and waits > 4 * n + 12:
        out.append(Finding('C11:too-many-wait-rounds', f'{waits} wait() calls for {n} nodes'))
    return _dedupe(out)


# ---------------------------------------------------------------------------------------------------
# C17: result retention
# ---------------------------------------------------------------------------------------------------

def c17_retention(spec: dict, obs, ex: refmodel.Expect) -> tuple[list[Finding], bool]:
    out: list[Finding] = []
    h = Hist(spec, obs, ex)
    backend = spec['lab']['backend']
    nontrivial = False
    if backend == 'controlled':
        ok_done: set[str] = set()       # handed back successfully
        finished: set[str] = set()      # coordinator has fully processed the completion
        dependents: dict[str, set] = {}
        for nid in ex.status:
            for j in ex.deps_in_run.get(nid, []):
                dependents.setdefault(h.nodes[j]['name'], set()).add(h.nodes[nid]['name'])
        pending_yield = None
        release_batches: dict[str, int] = {}
        batch_no = 0
        aborted = False

        def expected_present() -> set:
            return {d for d in ok_done if dependents.get(d, set()) - finished}

        for ev in obs.events:
            kind = ev[0]
            if kind == 'batch':
                batch_no += 1
            if kind == 'start' and not ev[2]:
                present = set(ev[3])
                for j in ex.deps_in_run.get(h.nid(ev[1]), []):
                    dn = h.nodes[j]['name']
                    if ex.status.get(j) in ('ok', 'loaded') and dn not in present:
                        out.append(Finding('C17:dependency-result-missing-at-start', f'{ev[1]} started without result of {dn}'))
            elif kind == 'yield':
                pending_yield = (ev[1], ev[2] == 'ok')
            elif kind == 'get_result':
                if not ev[2]:
                    out.append(Finding('C17:requested-result-released-before-capture', f'get_result({ev[1]}) after release'))
            elif kind == 'delivered':
                name, ok = pending_yield
                if ok:
                    ok_done.add(name)
                finished.add(name)
                present = set(ev[2])
                want = expected_present()
                for d in sorted(present - want):
                    out.append(Finding('C17:result-retained-after-last-dependent-finished',
                                       f'after {name} was processed, result of {d} is still held'))
                for d in sorted(want - present):
                    out.append(Finding('C17:result-released-while-a-dependent-is-unfinished',
                                       f'after {name} was processed, result of {d} is gone but {sorted(dependents[d] - finished)} still need it'))
                deps_of = {h.nodes[j]['name'] for j in ex.deps_in_run.get(h.nid(name), [])}
                for d in deps_of:
                    if len(dependents.get(d, ())) >= 2:
                        release_batches.setdefault(d, batch_no)
                        if release_batches[d] != batch_no:
                            nontrivial = True
                if not ok and deps_of:
                    nontrivial = True
            elif kind == 'close':
                if obs.outcome == 'return' and ev[1]:
                    out.append(Finding('C17:results-held-after-normal-return', f'runner still holds {ev[1]} at close'))
    else:
        if obs.outcome == 'return' and obs.real_results_left:
            names = [h.nodes[i]['name'] for i in obs.real_results_left]
            failed_any = any(s == 'failed' for s in ex.status.values())
            out.append(Finding(f'C17:real-runner-holds-results-after-normal-return:{"with" if failed_any else "no"}-failures',
                               f'{backend} runner still holds results of {names}'))
        if obs.outcome == 'return' and obs.readable_after:
            names = [h.nodes[i]['name'] for i in obs.readable_after]
            out.append(Finding('C17:result-still-readable-through-task-objects-after-normal-return',
                               f'{backend}: .result of {names} is still available in memory after run_tasks returned'))
        if any(s == 'failed' for s in ex.status.values()):
            nontrivial = True
        # spy-level: remove_results never names a task that a submitted-unfinished dependent still needs
        finished: set[str] = set()
        for ev in obs.events:
            if ev[0] == 'yield':
                pass
            if ev[0] == 'delivered':
                finished.add(ev[1])
            if ev[0] == 'remove':
                cur = None
                for d in ev[1]:
                    for nid in ex.status:
                        pn = h.nodes[nid]['name']
                        if h.nid(d) in ex.deps_in_run.get(nid, []) and pn not in finished and pn != _last_yield(obs.events, ev):
                            out.append(Finding('C17:result-released-while-a-dependent-is-unfinished',
                                               f'remove_results({ev[1]}) while {pn} still needs {d}'))
    return _dedupe(out), nontrivial


def _last_yield(events, upto):
    last = None
    for ev in events:
        if ev is upto:
            return last
        if ev[0] == 'yield':
            last = ev[1]
    return last


# ---------------------------------------------------------------------------------------------------
# second run on the same task objects (same Lab object or a new Lab on the same storage)
# ---------------------------------------------------------------------------------------------------

def expect_second(spec: dict, obs, ex1: refmodel.Expect, second: dict) -> refmodel.Expect:
    """Cache model after run 1 is read off the storage (which entries exist) with the values run 1 must have produced."""
    pre = obs.model_before
    model1 = {}
    for nid, cached in obs.cached_mid.items():
        if cached:
            model1[nid] = ex1.value[nid] if (nid in ex1.value and ex1.status.get(nid) == 'ok') else pre.get(nid)
    o2 = obs.second
    o2.model_before = model1
    storage_null = spec['lab'].get('storage', 'local') == 'none'
    spec2 = spec if second.get('requested') is None else {**spec, 'requested': [{'ref': i, 'fresh': False} for i in second['requested']]}
    return refmodel.evaluate(spec2, model1, context=o2.context, bust=second.get('bust', False), storage_null=storage_null)
