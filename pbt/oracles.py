"""Oracles over the observation of one DAG run (pbt.dagrun.Obs), one function per property clause.
Each returns a list of core.Finding. They are validity predicates written from the property statements:
any behaviour the statement allows is accepted."""
from __future__ import annotations

from typing import Any

from pbt import refmodel, specs
from pbt.core import Finding
from pbt.universe import vu
from pbt.values import digest


def expect_for(spec: dict, obs) -> refmodel.Expect:
    lab = spec['lab']
    backend = lab['backend']
    storage_null = lab.get('storage', 'local') == 'none'
    return refmodel.evaluate(spec, obs.model_before, context=obs.context, bust=lab.get('bust_cache', False),
                             storage_null=storage_null)


def exc_text(ex) -> str:
    if ex is None:
        return ''
    cause = ex.__cause__
    s = f'{type(ex).__module__}.{type(ex).__qualname__}: {ex}'
    if cause is not None:
        s += f' <- {type(cause).__module__}.{type(cause).__qualname__}: {cause}'
    return s[:600]


def exc_site(ex) -> str:
    """Innermost labtech frame of an exception: part of a root-cause signature."""
    import traceback
    tb = traceback.extract_tb(ex.__traceback__) if ex is not None and ex.__traceback__ else []
    site = 'unknown'
    for fr in tb:
        fn = fr.filename.replace('\\', '/')
        if '/labtech/' in fn:
            site = f"{fn.split('/labtech/', 1)[1]}:{fr.name}"
    return site


# ---------------------------------------------------------------------------------------------------
# C01: return value
# ---------------------------------------------------------------------------------------------------

def c01_return_value(spec: dict, obs, ex: refmodel.Expect) -> list[Finding]:
    out: list[Finding] = []
    if obs.timeout:
        return [Finding('C01:harness-timeout', exc_text(obs.exc))]
    if obs.outcome != 'return':
        return [Finding(f'C01:all-succeed-but-raised:{type(obs.exc).__name__}@{exc_site(obs.exc)}', exc_text(obs.exc))]
    nodes = {n['id']: n for n in spec['nodes']}
    want = [(nodes[i]['name'], v) for i, v in ex.returned(spec)]
    got = obs.returned
    if [n for n, _ in got] != [n for n, _ in want]:
        out.append(Finding('C01:keys-differ', f'returned keys {[n for n, _ in got]} expected {[n for n, _ in want]}'))
        return out
    for (n, gv), (_, wv) in zip(got, want):
        if gv != wv:
            out.append(Finding('C01:value-differs', f'node {n}: returned {gv!r} expected {wv!r}'))
            break
    if not obs.returned_key_ids_ok:
        out.append(Finding('C01:key-not-a-requested-object', 'a returned key is not one of the requested task objects'))
    return out
