"""Execute one DAG case spec against labtech and return an observation record."""
from __future__ import annotations

import contextlib
import io
import os
import shutil
import sys
import tempfile
import time
from datetime import datetime, timedelta
from typing import Any, Optional

import labtech
from labtech.types import ResultMeta, TaskResult

from pbt import refmodel, specs
from pbt.runners import Chooser, Control, ControlledBackend, HarnessTimeout, SpyBackend
from pbt.universe import vu

PRE_NONCE = 'pre'
RUN_NONCE = 'run'
PRE_META = ResultMeta(start=datetime(2020, 1, 2, 3, 4, 5, 678901), duration=timedelta(seconds=1.5))


@contextlib.contextmanager
def _alarm(seconds: float):
    """Hard per-case watchdog for calls that never return to the harness (e.g. a wait() that blocks for ever): a real-time
    timer whose handler raises HarnessTimeout in the main thread. Timers are not inherited by forked children."""
    import signal
    import threading
    if threading.current_thread() is not threading.main_thread():
        yield
        return

    def handler(signum, frame):
        raise HarnessTimeout('case watchdog (timer) expired: run_tasks did not return')
    old = signal.signal(signal.SIGALRM, handler)
    signal.setitimer(signal.ITIMER_REAL, seconds)
    try:
        yield
    finally:
        signal.setitimer(signal.ITIMER_REAL, 0)
        signal.signal(signal.SIGALRM, old)


def scratch_root() -> str:
    return os.environ.get('VERIF_SCRATCH') or tempfile.gettempdir()


def _second_run(obs, spec, second, lab, built, ctl, backend_kind, storage, storage_null, base_ctx, obs_dir, d, displays, deadline_s):
    """A second run_tasks call on the SAME task objects - on the same Lab object, or on a new Lab sharing the storage object."""
    # workers that run 1 had already started keep running after run_tasks raised: let them finish, so that the cache state
    # sampled below (and the trace split) is quiescent
    t_end = time.monotonic() + 8.0
    while time.monotonic() < t_end:
        started, ended = [], set()
        for r in vu.read_trace(obs_dir):
            if r[0] == 'S':
                started.append(r[1])
            elif r[0] in ('E', 'X', 'K'):
                ended.add(r[1])
        if all(n in ended for n in started):
            time.sleep(0.05 if backend_kind in ('fork', 'spawn') else 0)
            break
        time.sleep(0.01)
    if backend_kind in ('fork', 'spawn') and obs.outcome == 'raise':
        # Logical quiescence first: every worker process run 1 started must have exited (whatever was only queued can never start
        # any more). The executor's process table is internal; if it is not there the time window below is all there is.
        try:
            ex_ = getattr(getattr(ctl.runner, 'real', None), 'executor', None)
            procs = [p for _, p in list(getattr(ex_, '_running_id_to_future_and_process', {}).values())]
            for p_ in procs:
                try:
                    p_.join(30)
                except Exception:
                    pass
        except Exception:
            pass
        # a worker started just before the raise may not have written its S record yet: wait until the trace has been stable
        # (no new record, every started task ended) for a full window
        window = 4.0 if backend_kind == 'spawn' else 1.0
        last_len, t_stable = -1, time.monotonic()
        t_end = time.monotonic() + 20.0
        while time.monotonic() < t_end:
            recs = vu.read_trace(obs_dir)
            quiet = all(any(e[0] in ('E', 'X', 'K') and e[1] == r[1] for e in recs) for r in recs if r[0] == 'S')
            if len(recs) != last_len or not quiet:
                last_len, t_stable = len(recs), time.monotonic()
            elif time.monotonic() - t_stable >= window:
                break
            time.sleep(0.02)
    if second.get('uncache') and not storage_null:
        # between the two calls the caller removes some entries through the same Lab object
        lab.uncache_tasks([built.shared[i] for i in second['uncache'] if i in built.shared])
    n_trace = len(vu.read_trace(obs_dir))
    n_events = len(ctl.events)
    o2 = Obs()
    o2.built = built
    if not storage_null:
        # what is on the storage now, seen through a NEW Storage object (not the one the Labs under test share)
        probe = labtech.Lab(storage=make_storage(spec['lab'].get('storage', 'local'), d), runner_backend='serial')
        obs.cached_mid = {nid: probe.is_cached(task) for nid, task in built.shared.items()}
    context2 = {**base_ctx, **second.get('context_extra', {}), 'nonce': 'run2'}
    o2.context = context2
    if second.get('same_lab', True):
        lab.context.clear()
        lab.context.update(context2)
        lab_b = lab
    else:
        backend2 = ControlledBackend(ctl) if backend_kind == 'controlled' else SpyBackend(backend_kind, ctl)
        lab_b = labtech.Lab(storage=lab._storage, continue_on_failure=second.get('continue_on_failure', lab.continue_on_failure), max_workers=lab.max_workers,
                            context=context2, runner_backend=backend2, notebook=False)
    ctl.deadline = time.monotonic() + deadline_s
    sink = open(os.path.join(d, 'display2.txt'), 'w')
    try:
        with contextlib.redirect_stderr(sink), _alarm(deadline_s + 5.0):
            try:
                req2 = built.requested if second.get('requested') is None else [built.shared[i] for i in second['requested']]
                res = lab_b.run_tasks(req2, bust_cache=second.get('bust', False), disable_progress=not displays, disable_top=not displays)
            except HarnessTimeout as ex:
                o2.outcome, o2.exc, o2.timeout = 'raise', ex, True
            except BaseException as ex:   # noqa
                o2.outcome, o2.exc = 'raise', ex
            else:
                o2.outcome = 'return'
                o2.returned = [(k.name, v) for k, v in res.items()]
    finally:
        sink.close()
    o2.trace = vu.read_trace(obs_dir)[n_trace:]
    o2.events = ctl.events[n_events:]
    split_foreign(o2, spec)
    obs.second = o2


class Obs:
    def __init__(self):
        self.outcome: str = ''            # 'return' | 'raise'
        self.exc: Any = None               # the exception object if raised
        self.returned: list = []           # [(name, value)] in dict order
        self.returned_key_ids_ok: bool = True
        self.trace: list = []
        self.events: list = []
        self.keys_after: list = []
        self.cached_after: dict = {}       # nid -> bool
        self.meta: dict = {}               # nid -> [result_meta per instance]
        self.built: Optional[specs.Built] = None
        self.model_before: dict = {}
        self.context: dict = {}
        self.wall: float = 0.0
        self.timeout = False
        self.real_results_left: Any = None
        self.started_after_raise: list = []
        self.corrupt: list = []
        self.second = None
        self.cached_mid: dict = {}
        self.readable_after: list = []
        self.loaded_after: dict = {}
        self.cached_tasks_error = None

    def summary(self) -> dict:
        return {
            'outcome': self.outcome,
            'exc': None if self.exc is None else f'{type(self.exc).__name__}: {self.exc}'[:300],
            'returned': [n for n, _ in self.returned],
            'trace': [' '.join(r) for r in self.trace][:80],
            'events': [list(map(_short, e)) for e in self.events][:120],
        }


def _short(x):
    return x if isinstance(x, (str, int, bool, type(None))) else (list(x) if isinstance(x, (list, tuple)) else repr(x))


TOP_FIELDS = ['name', 'pid', 'status', 'start_time', 'children', 'threads', 'cpu', 'rss', 'vms']


def top_kwargs(lab_spec: dict) -> dict:
    """Documented display options of run_tasks (only meaningful while the task monitor is shown)."""
    top = lab_spec.get('top')
    if not top or not lab_spec.get('displays'):
        return {}
    out = {}
    if top.get('sort'):
        out['top_sort'] = top['sort']
    if top.get('n'):
        out['top_n'] = top['n']
    if top.get('fields'):
        out['top_format'] = ' '.join(f'${f}' for f in top['fields'])
    return out


def top_strategy(dense: bool = False):
    from hypothesis import strategies as st
    sort = st.builds(lambda neg, f: ('-' if neg else '') + f, st.sampled_from([True, False]), st.sampled_from(TOP_FIELDS[::-1]))
    full = st.fixed_dictionaries({
        'sort': sort if dense else st.one_of(st.none(), sort),
        'n': st.one_of(st.integers(1, 4), st.none(), st.just(10)) if dense else st.one_of(st.none(), st.integers(1, 4), st.just(10)),
        'fields': st.one_of(st.none(), st.lists(st.sampled_from(TOP_FIELDS), min_size=1, max_size=5, unique=True))})
    return full if dense else st.one_of(st.none(), full)


def make_storage(kind: str, d: str):
    if kind == 'none':
        return None
    if kind == 'local':
        return os.path.join(d, 'store')
    from pbt import storages
    return storages.make(kind, os.path.join(d, 'store'))


DEADLINES = {'controlled': 20.0, 'serial': 20.0, 'fork': 60.0, 'spawn': 150.0}


def split_foreign(obs, spec: dict) -> None:
    """Records about tasks that are not nodes of the spec at all (labtech ran something that is no parameter of any requested task)
    are kept in raw_trace / raw_events - C03 judges them - and removed from the views the other oracles index by node name."""
    known = {n['name'] for n in spec['nodes']}
    obs.raw_trace, obs.raw_events = obs.trace, obs.events
    named = ('S', 'R', 'E', 'X', 'K')
    single = ('submit', 'yield', 'delivered', 'get_result', 'start')
    foreign = {r[1] for r in obs.trace if r and r[0] in named and len(r) > 1 and r[1] not in known}
    foreign |= {ev[1] for ev in obs.events if ev and ev[0] in single and len(ev) > 1 and ev[1] not in known}
    obs.foreign = sorted(foreign)
    if not foreign:
        return
    obs.trace = [r for r in obs.trace if not (r and r[0] in named and len(r) > 1 and r[1] in foreign)]
    events = []
    for ev in obs.events:
        if ev and ev[0] in single and len(ev) > 1 and ev[1] in foreign:
            continue
        if ev and ev[0] in ('batch', 'release', 'remove', 'rest'):
            ev = tuple([x for x in part if x not in foreign] if isinstance(part, list) else part for part in ev)
        events.append(ev)
    obs.events = events


def execute_case(spec: dict, *, chooser: Optional[Chooser] = None, gated: bool = False, deadline_s: Optional[float] = None,
                 keep_dir: bool = False, pre_hook=None, storage_wrapper=None, around_run=None, verify_cache: bool = False,
                 rest_hook=None, idle_rounds: int = 2, second: Optional[dict] = None) -> Obs:
    obs = Obs()
    d = tempfile.mkdtemp(prefix='case-', dir=scratch_root())
    obs_dir = os.path.join(d, 'obs')
    os.makedirs(obs_dir)
    old_env = os.environ.get('VERIF_OBS_DIR')
    os.environ['VERIF_OBS_DIR'] = obs_dir
    t0 = time.monotonic()
    try:
        built = specs.Built(spec)
        obs.built = built
        lab_spec = spec['lab']
        storage = make_storage(lab_spec.get('storage', 'local'), d)
        storage_null = storage is None
        base_ctx = dict(lab_spec.get('context', {}))
        # ---- seed the cache (as an earlier, all-successful session with nonce 'pre' would have)
        model: dict[int, Any] = {}
        if not storage_null and spec.get('pre_cached'):
            pre_lab = labtech.Lab(storage=storage, runner_backend='serial')
            pv = refmodel.pre_values(spec, {**base_ctx, 'nonce': PRE_NONCE})
            for nid in spec['pre_cached']:
                node = built.nodes[nid]
                if node['type'] not in vu.CACHEABLE:
                    continue
                task = built.shared[nid]
                task._lt.cache.save(pre_lab._storage, task, TaskResult(value=pv[nid], meta=PRE_META))
                model[nid] = pv[nid]
        obs.model_before = model
        # entries that exist but cannot be loaded (what an earlier killed save leaves behind): truncate the result file
        obs.corrupt = []
        if model and spec.get('pre_corrupt') and lab_spec.get('storage', 'local') == 'local':
            for nid in spec['pre_corrupt']:
                if nid not in model:
                    continue
                kd = os.path.join(d, 'store', built.shared[nid].cache_key)
                for fn in ('data.pickle', 'part1.bin'):
                    fp = os.path.join(kd, fn)
                    if os.path.exists(fp):
                        with open(fp, 'r+b') as fh:
                            fh.truncate(max(1, os.path.getsize(fp) // 2))
                        obs.corrupt.append(nid)
                        break
        if gated:
            with open(os.path.join(obs_dir, 'gated'), 'w'):
                pass
        backend_kind = lab_spec['backend']
        if deadline_s is None:
            deadline_s = DEADLINES.get(backend_kind, 60.0)
        ctl = Control(chooser or Chooser(spec.get('schedule', [])), gated=gated, obs_dir=obs_dir,
                      deadline=time.monotonic() + deadline_s, rest_hook=rest_hook, idle_rounds=idle_rounds)
        if backend_kind == 'controlled':
            backend = ControlledBackend(ctl)
        else:
            backend = SpyBackend(backend_kind, ctl)
        context = {**base_ctx, 'nonce': RUN_NONCE}
        if lab_spec.get('no_nonce'):
            # exactly the generated context, possibly empty: nothing the harness adds keeps it non-empty
            context = dict(base_ctx)
        obs.context = dict(context)
        if storage_wrapper is not None and not storage_null:
            storage = storage_wrapper(storage)
        if lab_spec.get('late_context'):
            # the caller hands the Lab a dict that is still empty and fills it in before calling run_tasks
            ctx_obj: dict = {}
            lab = labtech.Lab(storage=storage, continue_on_failure=lab_spec.get('continue_on_failure', True),
                              max_workers=lab_spec.get('max_workers'), context=ctx_obj, runner_backend=backend, notebook=False)
            ctx_obj.update(context)
        else:
            lab = labtech.Lab(storage=storage, continue_on_failure=lab_spec.get('continue_on_failure', True),
                              max_workers=lab_spec.get('max_workers'), context=(None if (not context and lab_spec.get('context_none')) else context),
                              runner_backend=backend, notebook=False)
        if pre_hook is not None:
            pre_hook(lab, built, ctl)
        displays = lab_spec.get('displays', False)
        sink = open(os.path.join(d, 'display.txt'), 'w')
        try:
            with contextlib.redirect_stderr(sink), _alarm(deadline_s + 5.0):
                try:
                    with (around_run(ctl) if around_run is not None else contextlib.nullcontext()):
                            res = lab.run_tasks(built.requested, bust_cache=lab_spec.get('bust_cache', False),
                                            disable_progress=not displays, disable_top=not displays, **top_kwargs(lab_spec))
                except HarnessTimeout as ex:
                    obs.outcome = 'raise'
                    obs.exc = ex
                    obs.timeout = True
                except BaseException as ex:   # noqa: the outcome is data
                    if isinstance(ex, (SystemExit,)) and False:
                        raise
                    obs.outcome = 'raise'
                    obs.exc = ex
                else:
                    obs.outcome = 'return'
                    keys = list(res.keys())
                    obs.returned = [(k.name, v) for k, v in res.items()]
                    obs.returned_key_ids_ok = all(any(k is t for t in built.requested) for k in keys)
        finally:
            sink.close()
        runner = ctl.runner
        if obs.outcome == 'raise' and backend_kind in ('fork', 'spawn') and not obs.timeout:
            # "once run_tasks has raised no further task is started": the executor may have started the next queued task in the very
            # wait() call that also delivered the failure (i.e. just BEFORE the raise; its run() record then shows up a little
            # later), so run() records after the raise prove nothing. What must not happen is that work still QUEUED at the raise
            # gets dequeued afterwards. The queue is the executor's (internal) pending map; if it is not there the clause is skipped.
            ex_ = getattr(getattr(runner, 'real', None), 'executor', None)
            pend = getattr(ex_, '_pending_future_to_thunk', None)
            if isinstance(pend, dict):
                before = set(id(f) for f in pend)
                time.sleep(0.4 if backend_kind == 'fork' else 1.0)      # pass-only grace window
                after = set(id(f) for f in getattr(ex_, '_pending_future_to_thunk', {}))
                obs.started_after_raise = [f'{len(before - after)} queued submission(s) left the queue after run_tasks raised'] if before - after else []
        if second is not None and not obs.timeout and not gated:
            _second_run(obs, spec, second, lab, built, ctl, backend_kind, storage, storage_null, base_ctx, obs_dir, d, displays, deadline_s)
        runner = ctl.runner
        if gated:
            # let every worker still parked at a gate run to completion, and reap what a failed run left behind
            for n in spec['nodes']:
                with open(os.path.join(obs_dir, f'gate.{n["name"]}'), 'w'):
                    pass
        if obs.outcome == 'raise' and runner is not None and hasattr(runner, 'real'):
            # workers that were executing when run_tasks raised are allowed to finish: wait for them (never kill them in the
            # middle of a save - that would be a harness-made half-written entry); stop() is only the last resort for stragglers
            try:
                ex_ = getattr(runner.real, 'executor', None)
                for _, p_ in list(getattr(ex_, '_running_id_to_future_and_process', {}).values()):
                    try:
                        if p_.pid is not None:
                            p_.join(5 if obs.timeout else 30)
                    except Exception:
                        pass
            except Exception:
                pass
            try:
                runner.real.stop()
            except Exception:
                pass
        obs.trace = vu.read_trace(obs_dir)
        obs.events = ctl.events
        if obs.second is not None:
            obs.trace = obs.trace[:len(obs.trace) - len(obs.second.trace)] if obs.second.trace else obs.trace
            obs.events = obs.events[:len(obs.events) - len(obs.second.events)] if obs.second.events else obs.events
        split_foreign(obs, spec)
        if runner is not None and hasattr(runner, 'real'):
            real = runner.real
            left = []
            for nid, task in built.shared.items():
                try:
                    real.get_result(task)
                except KeyError:
                    continue
                except Exception:
                    continue
                left.append(nid)
            obs.real_results_left = left
        if verify_cache and backend_kind in ('fork', 'spawn') and obs.outcome == 'raise' and not obs.timeout:
            # workers that were executing when run_tasks raised may still be finishing (allowed): judge the cache only once they have
            # exited, not in the middle of their save
            try:
                ex_ = getattr(getattr(ctl.runner, 'real', None), 'executor', None)
                for _, p_ in list(getattr(ex_, '_running_id_to_future_and_process', {}).values()):
                    try:
                        if p_.pid is not None:
                            p_.join(30)
                    except Exception:
                        pass
            except Exception:
                pass
        # ---- post-state through the public API, from a fresh Lab on the same storage
        if not storage_null:
            lab2 = labtech.Lab(storage=make_storage(lab_spec.get('storage', 'local'), d), runner_backend='serial')      # a NEW Storage object, as a later session has
            obs.keys_after = sorted(lab2._storage.find_keys())
            for nid, task in built.shared.items():
                obs.cached_after[nid] = lab2.is_cached(task)
            if verify_cache:
                # what a later session would get for every entry that is reported cached
                for nid, task in built.shared.items():
                    if obs.cached_after[nid]:
                        try:
                            obs.loaded_after[nid] = ('ok', task._lt.cache.load_result_with_meta(lab2._storage, task).value)
                        except BaseException as ex:
                            obs.loaded_after[nid] = ('error', f'{type(ex).__name__}: {ex}'[:200])
                try:
                    lab2.cached_tasks(list(vu.NODE_TYPES.values()))
                except BaseException as ex:
                    obs.cached_tasks_error = f'{type(ex).__name__}: {ex}'[:200]
        for nid, insts in built.instances.items():
            obs.meta[nid] = [t.result_meta for t in insts]
        if obs.outcome == 'return' and backend_kind != 'controlled':
            # documented: accessing .result raises TaskError when no result is available in memory
            from labtech.exceptions import TaskError
            for nid, insts in built.instances.items():
                for t in insts:
                    try:
                        t.result
                    except TaskError:
                        continue
                    except Exception:
                        continue
                    obs.readable_after.append(nid)
                    break
        return obs
    finally:
        obs.wall = time.monotonic() - t0
        if old_env is None:
            os.environ.pop('VERIF_OBS_DIR', None)
        else:
            os.environ['VERIF_OBS_DIR'] = old_env
        if not keep_dir:
            shutil.rmtree(d, ignore_errors=True)
