"""Fresh-interpreter half of C15's cross-process copy check:  python -m pbt.c15_child <in.pickle> <out.json>
Unpickles task copies made in another interpreter (another PYTHONHASHSEED) and compares them with tasks built here from the
same construction specs."""
import json
import os
import pickle
import sys


def main():
    from pbt import ptrees
    with open(sys.argv[1], 'rb') as f:
        batch = pickle.load(f)
    out = []
    for item in batch:
        tree, blobs = item['tree'], item['blobs']
        fresh = ptrees.build(tree)
        probs = []
        for proto, blob in blobs.items():
            try:
                copy = pickle.loads(blob)
            except Exception as ex:
                probs.append(f'protocol {proto}: unpickling raised {type(ex).__name__}: {ex}'[:200])
                continue
            if not (copy == fresh):
                probs.append(f'protocol {proto}: copy != task built here from the same parameters')
                continue
            if hash(copy) != hash(fresh):
                probs.append(f'protocol {proto}: copy == fresh but hash(copy) != hash(fresh)')
            elif fresh not in {copy} or copy not in {fresh: 1}:
                probs.append(f'protocol {proto}: equal tasks do not find each other in a set/dict')
            if copy.cache_key != fresh.cache_key:
                probs.append(f'protocol {proto}: cache_key differs')
            if getattr(fresh, 'derived', None) != getattr(copy, 'derived', None):
                probs.append(f'protocol {proto}: post_init-derived attribute differs')
        out.append(probs)
    with open(sys.argv[2], 'w') as f:
        json.dump({'hashseed': os.environ.get('PYTHONHASHSEED'), 'problems': out}, f)
    os._exit(0)


if __name__ == '__main__':
    main()
