"""CLI:  python -m pbt.run <ID> [--tier quick|thorough] [--replay FILE]
Internal: python -m pbt.run <ID> --tier T --job I --out FILE   (one shard subprocess)"""
from __future__ import annotations

import argparse
import importlib
import json
import os
import shutil
import signal
import subprocess
import sys
import tempfile
import time

from . import core

NCPU = 16


def load_prop(pid: str):
    return importlib.import_module(f'pbt.props.{pid.lower()}')


def full_plan(mod, pid: str, tier: str) -> list:
    jobs = list(mod.plan(tier))
    cdir = os.path.join(core.ROOT, 'corpus', pid)
    if os.path.isdir(cdir):
        files = sorted(os.path.join(cdir, f) for f in os.listdir(cdir) if f.endswith('.json'))
        if files:
            jobs.append({'engine': 'corpus', 'files': files})
    return jobs


def quiet_labtech():
    import logging
    try:
        import labtech
        labtech.logger.handlers = [logging.NullHandler()]
    except Exception:
        pass


def run_job(pid: str, tier: str, seed: int, job_index: int, out: str) -> int:
    mod = load_prop(pid)
    jobs = full_plan(mod, pid, tier)
    job = jobs[job_index]
    quiet_labtech()
    rec = core.Recorder(pid, tier, seed)
    if job.get('engine') == 'corpus':
        # seconds-long replay tier: every committed regression case, bypassing Hypothesis
        for path in job['files']:
            record = core.load_replay(path)
            res = mod.replay(record)
            eng = 'corpus:' + record.get('engine', '?')
            rec.case(eng, record.get('case'), res)
            bad = rec.triage(eng, record.get('case'), res)
            if bad:
                rec.violation(eng, record.get('case'), bad, res.summary)
    else:
        mod.run_job(rec, job, core.derive_seed(seed, pid, job_index))
    with open(out + '.tmp', 'w') as f:
        json.dump(rec.to_json(), f, default=repr)
    os.replace(out + '.tmp', out)
    return 0


def kill_group(proc: subprocess.Popen) -> None:
    try:
        os.killpg(proc.pid, signal.SIGKILL)
    except (ProcessLookupError, PermissionError):
        pass


def orchestrate(pid: str, tier: str, seed: int) -> int:
    timer = core.Timer()
    mod = load_prop(pid)
    jobs = full_plan(mod, pid, tier)
    rec = core.Recorder(pid, tier, seed)
    scratch = tempfile.mkdtemp(prefix=f'labtech-verif-{pid}-')
    errors: list[str] = []
    try:
        pending = list(enumerate(jobs))
        running: list[tuple] = []
        default_timeout = 900 if tier == 'quick' else 4 * 3600
        while pending or running:
            while pending and len(running) < NCPU:
                i, job = pending.pop(0)
                jdir = os.path.join(scratch, f'job{i}')
                os.makedirs(os.path.join(jdir, 'tmp'))
                env = dict(os.environ)
                env['TMPDIR'] = os.path.join(jdir, 'tmp')
                env['VERIF_SCRATCH'] = jdir
                env['PYTHONHASHSEED'] = str(job.get('hashseed', 0))
                out = os.path.join(jdir, 'out.json')
                log = open(os.path.join(jdir, 'log.txt'), 'wb')
                proc = subprocess.Popen(
                    [sys.executable, '-m', 'pbt.run', pid, '--tier', tier, '--seed', str(seed),
                     '--job', str(i), '--out', out],
                    stdin=subprocess.DEVNULL, stdout=log, stderr=subprocess.STDOUT, env=env,
                    cwd=core.ROOT, start_new_session=True)
                log.close()
                running.append((i, job, proc, out, jdir, time.monotonic() + job.get('timeout', default_timeout)))
            still = []
            for item in running:
                i, job, proc, out, jdir, deadline = item
                rc = proc.poll()
                if rc is None:
                    if time.monotonic() > deadline:
                        kill_group(proc)
                        proc.wait()
                        errors.append(f'job {i} ({job.get("engine")}) exceeded its time budget: inconclusive')
                    else:
                        still.append(item)
                    continue
                kill_group(proc)  # leftover manager processes etc.
                if rc == 0 and os.path.exists(out):
                    with open(out) as f:
                        rec.merge(json.load(f))
                else:
                    tail = ''
                    try:
                        with open(os.path.join(jdir, 'log.txt'), 'rb') as f:
                            tail = f.read()[-3000:].decode('utf-8', 'replace')
                    except OSError:
                        pass
                    errors.append(f'job {i} ({job.get("engine")}) failed rc={rc}:\n{tail}')
            running = still
            if running:
                time.sleep(0.05)
    finally:
        shutil.rmtree(scratch, ignore_errors=True)

    # ---- report -----------------------------------------------------------------------------------
    exit_code = 0
    seen = set()
    for v in rec.violations:
        key = (v['engine'], v['signature'])
        if key in seen:
            continue
        seen.add(key)
        path = core.write_replay(pid, v)
        print(f'VIOLATION property={pid} replay={path}')
        print(f'  engine={v["engine"]} signature={v["signature"]}')
        exit_code = 1
    for entry in rec.known.open:
        if entry.get('property') == pid:
            n = rec.excluded.get(entry['signature'], 0)
            print(f'KNOWN-FINDING: property={pid} {entry.get("what", entry["signature"])} '
                  f'[signature={entry["signature"]}; observed {n}x in this run]')
    for e in errors:
        print(f'HARNESS-ERROR property={pid} {e}', file=sys.stderr)
    if errors and exit_code == 0:
        exit_code = 2

    samples = [rec.samples[h] for h in sorted(rec.samples)]
    evidence = {
        'property_id': pid,
        'tier': tier,
        'seed': seed,
        'level': mod.LEVEL,
        'coverage': {
            'evaluations': rec.evaluations,
            'distinct_cases': len(rec.distinct),
            'distinct_nontrivial': len(rec.nontrivial),
            'rule': mod.RULE,
            'samples': samples,
            'per_engine_evaluations': dict(rec.engines),
            'labels': dict(sorted(rec.labels.items())),
            'excluded_known': dict(rec.excluded),
            'inconclusive': rec.inconclusive,
            'exhaustive': bool(rec.exhaustive) and all(v.get('complete', False) for v in rec.exhaustive.values()) and getattr(mod, 'EXHAUSTIVE_CLAIM', False),
            'exhaustive_scopes': rec.exhaustive,
            'notes': rec.notes[:50],
            'extra': rec.extra,
            'harness_errors': errors,
        },
        'assumptions': list(getattr(mod, 'ASSUMPTIONS', [])),
        'wall_s': round(timer.elapsed(), 2),
        'violations': len(seen),
    }
    os.makedirs(os.path.join(core.OUT_ROOT, 'evidence'), exist_ok=True)
    ev_path = os.path.join(core.OUT_ROOT, 'evidence', f'{pid}.json')
    with open(ev_path + '.tmp', 'w') as f:
        json.dump(evidence, f, indent=1, default=repr)
    os.replace(ev_path + '.tmp', ev_path)
    print(f'{pid} {tier}: evaluations={rec.evaluations} distinct_nontrivial={len(rec.nontrivial)} '
          f'excluded_known={sum(rec.excluded.values())} inconclusive={rec.inconclusive} '
          f'violations={len(seen)} wall={timer.elapsed():.1f}s exit={exit_code}')
    return exit_code


def replay(pid: str, path: str) -> int:
    mod = load_prop(pid)
    quiet_labtech()
    record = core.load_replay(path)
    rec = core.Recorder(pid, 'quick', 0)
    scratch = tempfile.mkdtemp(prefix=f'labtech-verif-{pid}-replay-')
    os.environ['VERIF_SCRATCH'] = scratch
    os.environ['TMPDIR'] = scratch
    tempfile.tempdir = None
    try:
        res = mod.replay(record)
    finally:
        shutil.rmtree(scratch, ignore_errors=True)
    bad = rec.triage(record.get('engine', '?'), record.get('case'), res)
    for f in res.findings:
        print(f'  finding: {f.signature}: {f.detail[:1500]}')
    if bad:
        print(f'VIOLATION property={pid} replay={path}')
        return 1
    print(f'{pid} replay: no violation reproduced')
    return 0


def main(argv=None) -> int:
    ap = argparse.ArgumentParser()
    ap.add_argument('pid')
    ap.add_argument('--tier', default=os.environ.get('VERIF_TIER', 'quick'), choices=['quick', 'thorough'])
    ap.add_argument('--seed', type=int, default=None)
    ap.add_argument('--replay')
    ap.add_argument('--job', type=int)
    ap.add_argument('--out')
    args = ap.parse_args(argv)
    seed = args.seed
    if seed is None:
        try:
            seed = int(os.environ.get('VERIF_SEED', '1'))
        except ValueError:
            seed = 1
    pid = args.pid.upper()
    try:
        if args.replay:
            return replay(pid, args.replay)
        if args.job is not None:
            rc = run_job(pid, args.tier, seed, args.job, args.out)
            sys.stdout.flush()
            sys.stderr.flush()
            os._exit(rc)     # do not wait for non-daemon threads a hung case may have left behind
        return orchestrate(pid, args.tier, seed)
    except SystemExit:
        raise
    except BaseException as ex:  # harness error: never a violation
        print(f'HARNESS-ERROR property={pid} {core.format_exc(ex)}', file=sys.stderr)
        return 2


if __name__ == '__main__':
    sys.exit(main())
