"""Reference model, written from the property statements (not from labtech's code):
a plain sequential dependency-first evaluator over a case spec, with a dictionary model of the cache."""
from __future__ import annotations

import json
from dataclasses import dataclass, field
from typing import Any, Optional

from pbt import specs
from pbt.values import combine, ctx_digest, digest

CACHEABLE = {'N1', 'N2', 'N3', 'NN', 'N', 'NX', 'J', 'P2', 'T', 'CtxSub', 'CtxSub2', 'CtxWrap', 'CtxSubMix', 'CtxSubKid', 'NCV'}
FAIL_MODES_ALWAYS = {'exit', 'baseexc', 'kill9', 'kill15', 'raisefrom', 'exit0'}


def norm(v):
    if isinstance(v, (list, tuple)):
        return tuple(norm(x) for x in v)
    return v


def filtered_ctx(node: dict, context: dict) -> dict:
    if node['type'].startswith('CtxSub'):
        keys = node.get('payload') or []
        out = {k: context[k] for k in keys if k in context}
        if 'nonce' in context:
            out['nonce'] = context['nonce']
        return out
    if node['type'] == 'CtxWrap':
        out = {'wrapped': {k: v for k, v in context.items() if k != 'nonce'}}
        if 'nonce' in context:
            out['nonce'] = context['nonce']
        return out
    return dict(context)


def own_failure(node: dict, context: dict) -> Optional[str]:
    mode = node.get('mode', 'ok')
    if mode in ('ok', 'probe', 'stubborn', 'linger'):
        return None
    if mode.startswith('raise:'):
        return mode
    if mode.startswith('flag:'):
        return mode if filtered_ctx(node, context).get(mode.split(':', 1)[1]) else None
    if mode in FAIL_MODES_ALWAYS:
        return mode
    if mode == 'unpicklable':
        return 'unpicklable'  # callers decide per backend/cache whether this is a failure
    raise ValueError(mode)


@dataclass
class Expect:
    status: dict = field(default_factory=dict)     # nid -> 'loaded' | 'ok' | 'failed'
    why: dict = field(default_factory=dict)        # nid -> reason for failure
    value: dict = field(default_factory=dict)      # nid -> value (for loaded/ok)
    executed: list = field(default_factory=list)   # nids whose run() starts, dependency-first order
    loaded: list = field(default_factory=list)
    new_model: dict = field(default_factory=dict)  # cache model after the run
    deps_in_run: dict = field(default_factory=dict)  # nid -> direct deps that labtech must schedule first

    def returned(self, spec) -> list:
        """(nid, value) in request order, de-duplicated by first occurrence; failed nodes omitted."""
        out, seen = [], set()
        for r in spec['requested']:
            i = r['ref']
            if i in seen:
                continue
            seen.add(i)
            if self.status[i] in ('ok', 'loaded'):
                out.append((i, self.value[i]))
        return out


def evaluate(spec: dict, model: dict, *, context: dict, bust: bool, storage_null: bool = False,
             unpicklable_fails: bool = True, corrupt=()) -> Expect:
    """model: nid -> value currently cached. Returns what a run of spec['requested'] must do."""
    nodes = {n['id']: n for n in spec['nodes']}
    ex = Expect(new_model=dict(model))

    def visit(i: int):
        if i in ex.status:
            return
        node = nodes[i]
        cacheable = node['type'] in CACHEABLE and not storage_null
        if (not bust) and cacheable and i in model and i in corrupt:
            # an entry that exists but cannot be loaded: the task is treated as cached (its dependencies are not needed), the load
            # fails, the task counts as failed
            ex.status[i] = 'failed'
            ex.why[i] = 'corrupt-cache'
            ex.loaded.append(i)
            ex.deps_in_run[i] = []
            return
        if (not bust) and cacheable and i in model:
            ex.status[i] = 'loaded'
            ex.value[i] = model[i]
            ex.loaded.append(i)
            ex.deps_in_run[i] = []
            return
        ex.status[i] = 'visiting'
        deps = specs.direct_deps(node)
        ex.deps_in_run[i] = deps
        for j in deps:
            visit(j)
        ex.executed.append(i)
        fctx = filtered_ctx(node, context)
        if node.get('read', True):
            reads = specs.dep_reads(node)
            for j in reads:
                if ex.status[j] == 'failed':
                    ex.status[i] = 'failed'
                    ex.why[i] = f'dep:{j}'
                    return
            dd = [digest(ex.value[j]) for j in reads]
        else:
            dd = []
        f = own_failure(node, context)
        if f is not None and not (f == 'unpicklable' and not unpicklable_fails):
            ex.status[i] = 'failed'
            ex.why[i] = f
            return
        ex.status[i] = 'ok'
        ex.value[i] = combine(node['type'], node['name'], norm(node.get('payload')), ctx_digest(fctx), dd,
                              context.get('nonce'))
        if cacheable:
            ex.new_model[i] = ex.value[i]

    for r in spec['requested']:
        visit(r['ref'])
    return ex


def pre_values(spec: dict, context: dict) -> dict:
    """Value every node would have had in an earlier all-successful session with `context` (used to seed the cache)."""
    nodes = {n['id']: n for n in spec['nodes']}
    vals: dict[int, Any] = {}
    for n in spec['nodes']:
        dd = [digest(vals[j]) for j in specs.dep_reads(n)] if n.get('read', True) else []
        vals[n['id']] = combine(n['type'], n['name'], norm(n.get('payload')), ctx_digest(filtered_ctx(n, context)), dd,
                                context.get('nonce'))
    return vals
