"""Interrupt injection: a trace function that raises KeyboardInterrupt at chosen line boundaries executed by the calling
thread inside labtech (an interrupt delivered at that line boundary), and real SIGINT delivery helpers."""
from __future__ import annotations

import contextlib
import os
import sys
import threading

from pbt.universe import vu


class LineInterrupter:
    """Counts 'line' events of frames whose code lives under .../labtech/ (optionally only some files) in the thread and
    process that armed it; raises KeyboardInterrupt at each index in `at`. Children forked later inherit the trace function, so
    every event is guarded by pid."""

    def __init__(self, at=(), only_files=None, on_fire=None, sites=()):
        self.on_fire = on_fire
        # sites: [(file suffix below labtech/, line number, occurrence)] - fire at the n-th time that line is reached
        self.sites = {(f, int(ln)): int(occ) for f, ln, occ in sites}
        self.site_counts = {}
        self.at = sorted(at)
        self.only = tuple(only_files) if only_files else None
        self.count = 0
        self.pid = os.getpid()
        self.fired = []      # (index, file:line func)

    def _match(self, fn: str) -> bool:
        if '/labtech/' not in fn:
            return False
        if self.only is not None:
            return fn.endswith(self.only)
        return True

    def tracer(self, frame, event, arg):
        if os.getpid() != self.pid:
            sys.settrace(None)
            return None
        fn = frame.f_code.co_filename
        if not self._match(fn):
            return None if event == 'call' else self.tracer
        if event == 'line':
            i = self.count
            self.count += 1
            key = (fn.rsplit('/labtech/', 1)[1], frame.f_lineno)
            c = self.site_counts[key] = self.site_counts.get(key, 0) + 1
            hit = False
            if self.sites and self.sites.get(key) == c:
                del self.sites[key]
                hit = True
            if self.at and i == self.at[0]:
                self.at.pop(0)
                hit = True
            if hit:
                where = f'{fn.rsplit("/labtech/", 1)[1]}:{frame.f_lineno} {frame.f_code.co_name}'
                self.fired.append((i, where))
                vu.trace(f'I {i} {where.replace(" ", "@")}')
                if self.on_fire is not None:
                    self.on_fire(i, where)
                raise KeyboardInterrupt()
        return self.tracer

    @contextlib.contextmanager
    def armed(self):
        if threading.current_thread() is not threading.main_thread():
            raise RuntimeError('arm the interrupter in the main thread')
        old = sys.gettrace()
        sys.settrace(self.tracer)
        try:
            yield self
        finally:
            sys.settrace(old)
