"""Harness-side Storage implementations built on labtech's public Storage / FsspecStorage base classes."""
from __future__ import annotations

import os
import uuid
from pathlib import Path, PosixPath

from labtech.storage import FsspecStorage


class LocalFsspecStorage(FsspecStorage):
    """The reference implementation sketched at the bottom of labtech/storage.py, on fsspec's LocalFileSystem."""

    def __init__(self, storage_dir):
        super().__init__(Path(storage_dir).resolve())

    def fs_constructor(self):
        from fsspec.implementations.local import LocalFileSystem
        return LocalFileSystem()


class MemoryFsspecStorage(FsspecStorage):
    """fsspec's in-memory filesystem (process-global store): a provider whose ls() defaults differ from the local one."""

    def __init__(self, storage_dir):
        super().__init__(PosixPath(str(storage_dir)))

    def fs_constructor(self):
        from fsspec.implementations.memory import MemoryFileSystem
        return MemoryFileSystem()


def make(kind: str, path: str):
    if kind == 'fsspec_local':
        return LocalFsspecStorage(path)
    if kind == 'fsspec_memory':
        return MemoryFsspecStorage('/verifmem/' + uuid.uuid5(uuid.NAMESPACE_URL, path).hex)
    raise ValueError(kind)


def cleanup(kind: str, storage) -> None:
    if kind == 'fsspec_memory':
        try:
            storage.fs_constructor().rm(str(storage._storage_path), recursive=True)
        except Exception:
            pass


# ---------------------------------------------------------------------------------------------------
# fault-injecting wrapper (C12, C13): wraps any Storage through the public ABC
# ---------------------------------------------------------------------------------------------------

import signal as _signal

from labtech.types import Storage as _Storage


class InjectedOSError(OSError):
    pass


def _log_event(path, text):
    if path:
        fd = os.open(path, os.O_WRONLY | os.O_APPEND | os.O_CREAT, 0o644)
        try:
            os.write(fd, (text + '\n').encode())
        finally:
            os.close(fd)


class FaultyStorage(_Storage):
    """Counts the storage events of the write path (open / write / flush / close, each before and after, writes also
    mid-way) and, at event number `fault_at`, either raises InjectedOSError (action='raise') or kills the current process
    (action='kill9' / 'kill15'; flavour 'lost' = Python-level buffers are not flushed first, 'flushed' = they are)."""

    def __init__(self, inner, fault_at=None, action='raise', flavour='lost', log_path=None):
        self.inner = inner
        self.fault_at = fault_at
        self.action = action
        self.flavour = flavour
        self.log_path = log_path
        self.count = 0
        self.open_handles = []

    def _event(self, name, handle=None, data=None):
        i = self.count
        self.count += 1
        _log_event(self.log_path, f'{i} {name}')
        if i != self.fault_at:
            return
        _log_event(self.log_path, f'FAULT {i} {name} {self.action}')
        if name == 'write-mid' and handle is not None and data is not None:
            handle.write(data[:len(data) // 2])
        if self.action == 'raise':
            raise InjectedOSError(f'injected fault at storage event {i} ({name})')
        if self.flavour == 'flushed':
            for h in self.open_handles:
                try:
                    h.flush()
                except Exception:
                    pass
        os.kill(os.getpid(), _signal.SIGKILL if self.action == 'kill9' else _signal.SIGTERM)
        import time
        time.sleep(30)

    def find_keys(self):
        return self.inner.find_keys()

    def exists(self, key):
        return self.inner.exists(key)

    def delete(self, key):
        return self.inner.delete(key)

    def file_handle(self, key, filename, *, mode='r'):
        if mode[:1] not in ('w', 'a', 'x'):
            return self.inner.file_handle(key, filename, mode=mode)
        self._event(f'open-before:{filename}')
        h = self.inner.file_handle(key, filename, mode=mode)
        self.open_handles.append(h)
        try:
            self._event(f'open-after:{filename}')
        except BaseException:
            h.close()
            raise
        return FaultyHandle(self, h, filename)


class FaultyHandle:
    def __init__(self, storage, inner, filename):
        self._s = storage
        self._h = inner
        self._fn = filename
        self._closed = False

    def write(self, data):
        self._s._event('write-before')
        self._s._event('write-mid', self._h, data)
        n = self._h.write(data)
        self._s._event('write-after')
        return n

    def flush(self):
        self._s._event('flush-before')
        r = self._h.flush()
        self._s._event('flush-after')
        return r

    def close(self):
        if self._closed:
            return
        try:
            self._s._event('close-before')
            self._closed = True
            self._h.close()
            self._s._event('close-after')
        finally:
            if not self._closed:
                # the fault struck before the handle was closed: like a device that reports the error (e.g. ENOSPC) only at
                # the final flush, nothing that was written through this handle reached the file
                self._closed = True
                try:
                    self._h.flush()
                    self._h.truncate(0)
                except Exception:
                    pass
                self._h.close()

    def __del__(self):
        # like a real file object: closing on finalisation, errors ignored
        try:
            self.close()
        except BaseException:
            pass

    def __enter__(self):
        return self

    def __exit__(self, *exc):
        self.close()
        return False

    def __getattr__(self, name):
        return getattr(self._h, name)
