"""Harness-side Storage implementations built on labtech's public Storage / FsspecStorage base classes."""
from __future__ import annotations

import os
import uuid
from pathlib import Path, PosixPath

from labtech.storage import FsspecStorage


class LocalFsspecStorage(FsspecStorage):
    """The reference implementation sketched at the bottom of labtech/storage.py, on fsspec's LocalFileSystem."""

    def __init__(self, storage_dir):
        super().__init__(Path(storage_dir).resolve())

    def fs_constructor(self):
        from fsspec.implementations.local import LocalFileSystem
        return LocalFileSystem()


class MemoryFsspecStorage(FsspecStorage):
    """fsspec's in-memory filesystem (process-global store): a provider whose ls() defaults differ from the local one."""

    def __init__(self, storage_dir):
        super().__init__(PosixPath(str(storage_dir)))

    def fs_constructor(self):
        from fsspec.implementations.memory import MemoryFileSystem
        return MemoryFileSystem()


def make(kind: str, path: str):
    if kind == 'fsspec_local':
        return LocalFsspecStorage(path)
    if kind == 'fsspec_memory':
        return MemoryFsspecStorage('/verifmem/' + uuid.uuid5(uuid.NAMESPACE_URL, path).hex)
    raise ValueError(kind)


def cleanup(kind: str, storage) -> None:
    if kind == 'fsspec_memory':
        try:
            storage.fs_constructor().rm(str(storage._storage_path), recursive=True)
        except Exception:
            pass
