"""Fresh-interpreter second run for C06:  python -m pbt.c06_child <case.json> <out.pickle>"""
import json
import logging
import os
import pickle
import sys


def main():
    case = json.load(open(sys.argv[1]))
    import labtech
    labtech.logger.handlers = [logging.NullHandler()]
    from pbt import resultcase
    from pbt.universe import vu
    os.environ['VERIF_OBS_DIR'] = case['obs_dir']
    tasks = resultcase.build_tasks(case)
    lab = labtech.Lab(storage=case['storage'], runner_backend=case['backend'], notebook=False, max_workers=2)
    requested = [tasks[i] for i in case['requested']]
    out = {'hashseed': os.environ.get('PYTHONHASHSEED'), 'pid': os.getpid()}
    try:
        out['is_cached'] = [lab.is_cached(t) for t in tasks]
        res = lab.run_tasks(requested, disable_progress=True, disable_top=True)
        idx = {id(t): i for i, t in enumerate(tasks)}
        out['values'] = {idx[id(t)]: v for t, v in res.items()}
        out['meta'] = {idx[id(t)]: t.result_meta for t in requested}
        out['keys'] = [t.cache_key for t in tasks]
    except BaseException as ex:
        out['error'] = f'{type(ex).__name__}: {ex}'
    with open(sys.argv[2], 'wb') as f:
        pickle.dump(out, f)
    sys.stdout.flush()
    os._exit(0)


if __name__ == '__main__':
    main()
