"""Coverage-guided fuzzing (atheris / libFuzzer) of LocalStorage for C18, as a secondary engine of the thorough tier.
Bytes are decoded into a structured case (pre-existing layout bits + 1-6 operations from the C18 grammar) with
FuzzedDataProvider, the sandbox is rebuilt at the top of every iteration, and the C18 snapshot oracle runs inside the target.
Usage (normally started by pbt.props.c18):  python -m pbt.fuzz_c18 <findings-dir> -max_total_time=N -seed=N <corpus-dir>"""
import json
import os
import sys


def decode(data: bytes):
    import atheris
    from pbt.props import c18
    fdp = atheris.FuzzedDataProvider(data)
    key_links = [k for k in sorted(c18.LINKS_KEY) if fdp.ConsumeBool()]
    file_links = [k for k in sorted(c18.LINKS_FILE) if fdp.ConsumeBool()]
    layout = {'keys': [['k1', 'k2'], ['k1'], []][fdp.ConsumeIntInRange(0, 2)], 'key_links': key_links, 'file_links': file_links,
              'plainfile': fdp.ConsumeBool(), 'store_symlinked': fdp.ConsumeBool(), 'gitignore': fdp.ConsumeBool(), 'relative': fdp.ConsumeBool()}
    names = c18.VALID_KEYS + sorted(c18.LINKS_KEY) + c18.ADVERSARIAL
    files = c18.FILENAMES + sorted(c18.LINKS_FILE) + c18.ADVERSARIAL

    def pick(pool):
        if fdp.ConsumeIntInRange(0, 7) == 0:
            return fdp.ConsumeUnicodeNoSurrogates(6)
        return pool[fdp.ConsumeIntInRange(0, len(pool) - 1)]
    ops = []
    for _ in range(fdp.ConsumeIntInRange(1, 6)):
        kind = fdp.ConsumeIntInRange(0, 8)
        if kind == 8:
            ops.append({'op': 'chdir', 'to': ['outside', 'store', '.'][fdp.ConsumeIntInRange(0, 2)]})
        elif kind >= 6:
            # focused: an existing (or symlinked-sibling, or new) key with a file-level name from the planted links
            focus_files = sorted(c18.LINKS_FILE) + ['f.txt', 'new.bin']
            ops.append({'op': 'file_handle', 'key': ['k1', 'lnk_sibling', 'newkey'][fdp.ConsumeIntInRange(0, 2)],
                        'filename': focus_files[fdp.ConsumeIntInRange(0, len(focus_files) - 1)], 'mode': c18.MODES[fdp.ConsumeIntInRange(0, len(c18.MODES) - 1)]})
        elif kind == 0:
            ops.append({'op': 'exists', 'key': pick(names)})
        elif kind == 1:
            ops.append({'op': 'delete', 'key': pick(names)})
        elif kind in (2, 3):
            ops.append({'op': 'file_handle', 'key': pick(names), 'filename': pick(files), 'mode': c18.MODES[fdp.ConsumeIntInRange(0, len(c18.MODES) - 1)]})
        elif kind == 4:
            ops.append({'op': 'find_keys'})
        else:
            ops.append({'op': 'plant', 'name': ['k1', 'k2', 'newkey', 'K-9_x'][fdp.ConsumeIntInRange(0, 3)],
                        'as': ['lnk_out_dir', 'lnk_out_file', 'lnk_dangling', 'lnk_self', 'lnk_nested', 'lnk_abs'][fdp.ConsumeIntInRange(0, 5)]})
    return {'layout': layout, 'ops': ops}


def main():
    import atheris
    out_dir = sys.argv[1]
    argv = [sys.argv[0]] + sys.argv[2:]
    os.makedirs(out_dir, exist_ok=True)
    stats = {'execs': 0, 'nontrivial': 0, 'findings': 0}
    with atheris.instrument_imports(include=['labtech.storage']):
        import labtech.storage  # noqa: F401
    from pbt import core
    from pbt.props import c18

    def target(data: bytes):
        spec = decode(data)
        res = c18.check(spec)
        stats['execs'] += 1
        stats['nontrivial'] += bool(res.nontrivial)
        if stats['execs'] % 200 == 0:
            with open(os.path.join(out_dir, 'stats.json'), 'w') as f:
                json.dump(stats, f)
        if res.findings:
            stats['findings'] += 1
            h = core.case_hash(spec)
            with open(os.path.join(out_dir, f'finding-{h}.json'), 'w') as f:
                json.dump({'property': 'C18', 'engine': 'atheris', 'signature': res.findings[0].signature,
                           'all_signatures': sorted({x.signature for x in res.findings}),
                           'detail': '\n'.join(f'{x.signature}: {x.detail}' for x in res.findings)[:5000], 'case': spec, 'observed': res.summary}, f)
            with open(os.path.join(out_dir, 'stats.json'), 'w') as f:
                json.dump(stats, f)
            raise RuntimeError('C18 oracle violated: ' + res.findings[0].signature)

    atheris.Setup(argv, target)
    atheris.Fuzz()


if __name__ == '__main__':
    main()
