"""Shared plumbing: case hashing, evidence recorder, known-findings matcher, Hypothesis wrapper, replay IO."""
from __future__ import annotations

import collections
import hashlib
import json
import os
import time
import traceback
from dataclasses import dataclass, field
from typing import Any, Callable, Iterable, Optional

ROOT = os.path.dirname(os.path.dirname(os.path.abspath(__file__)))
KNOWN_FILE = os.path.join(ROOT, 'known_findings.json')
OUT_ROOT = os.environ.get('VERIF_OUT') or ROOT     # where evidence/ and replays/ are written (default: /verif)
MAX_SAMPLES = 4


def canon_json(obj: Any) -> str:
    return json.dumps(obj, sort_keys=True, separators=(',', ':'), default=repr)


def case_hash(obj: Any) -> str:
    return hashlib.sha1(canon_json(obj).encode('utf-8', 'surrogatepass')).hexdigest()[:16]


def derive_seed(*parts: Any) -> int:
    h = hashlib.sha256(canon_json(list(parts)).encode()).digest()
    return int.from_bytes(h[:8], 'big') % (2**63)


@dataclass
class Finding:
    """One way in which a case contradicts the property. `signature` names the root-cause class
    (clause + call site / window + symptom); it is what known_findings.json is matched against."""
    signature: str
    detail: str = ''


@dataclass
class CaseResult:
    findings: list = field(default_factory=list)
    nontrivial: bool = False
    labels: tuple = ()
    summary: Any = None
    key: Any = None          # what identifies the case for distinct-counting (default: the spec)
    inconclusive: bool = False
    stop_search: bool = False   # a hang/timeout: record it, do not shrink (every replay would cost a full watchdog period)


class PropertyViolation(AssertionError):
    pass


class StopSearch(BaseException):
    """Leaves a Hypothesis run at once (no shrinking): after a hang-type finding, or when the job's budget is used up."""


class Known:
    """Read-only view of /verif/known_findings.json. Only `open` entries suppress anything."""

    def __init__(self, path: str = KNOWN_FILE):
        self.open: list[dict] = []
        self.fixed: list[Any] = []
        if os.path.exists(path):
            with open(path) as f:
                data = json.load(f)
            self.open = list(data.get('open', []))
            self.fixed = list(data.get('fixed', []))

    def match(self, prop: str, signature: str) -> Optional[dict]:
        for entry in self.open:
            if entry.get('property') == prop and entry.get('signature') == signature:
                return entry
        return None


class Recorder:
    """Accumulates what a run (or one shard of it) actually covered."""

    def __init__(self, prop: str, tier: str, seed: int):
        self.prop = prop
        self.tier = tier
        self.seed = seed
        self.evaluations = 0
        self.nontrivial: set[str] = set()
        self.distinct: set[str] = set()
        self.labels: collections.Counter = collections.Counter()
        self.engines: collections.Counter = collections.Counter()
        self.samples: dict[str, Any] = {}
        self.excluded: collections.Counter = collections.Counter()
        self.excluded_examples: dict[str, Any] = {}
        self.inconclusive = 0
        self.violations: list[dict] = []
        self.notes: list[str] = []
        self.exhaustive: dict[str, Any] = {}
        self.extra: dict[str, Any] = {}
        self.xproc: dict[str, Any] = {}     # observations that must agree across shard processes (different hash seeds)
        self.known = Known()

    # -- per case -----------------------------------------------------------------------------
    def case(self, engine: str, spec: Any, res: CaseResult) -> None:
        self.evaluations += 1
        self.engines[engine] += 1
        for lab in res.labels:
            self.labels[lab] += 1
        if res.inconclusive:
            self.inconclusive += 1
        h = case_hash([engine, res.key if res.key is not None else spec])
        self.distinct.add(h)
        if res.nontrivial:
            self.nontrivial.add(h)
            if h not in self.samples:
                self.samples[h] = {'engine': engine, 'case': spec, 'observed': res.summary}
                if len(self.samples) > MAX_SAMPLES:
                    del self.samples[max(self.samples)]

    def triage(self, engine: str, spec: Any, res: CaseResult, session_known: Iterable[str] = ()) -> list[Finding]:
        """Split findings into known (counted, suppressed) and new (returned)."""
        bad = []
        for f in res.findings:
            if self.known.match(self.prop, f.signature) is not None:
                self.excluded[f.signature] += 1
                self.excluded_examples.setdefault(f.signature, {'engine': engine, 'case': spec, 'detail': f.detail[:2000]})
            elif f.signature in session_known:
                pass
            else:
                bad.append(f)
        return bad

    def violation(self, engine: str, spec: Any, findings: list[Finding], summary: Any = None, flaky: bool = False) -> None:
        self.violations.append({
            'property': self.prop,
            'engine': engine,
            'signature': findings[0].signature,
            'all_signatures': sorted({f.signature for f in findings}),
            'detail': '\n'.join(f'{f.signature}: {f.detail}' for f in findings)[:20000],
            'case': spec,
            'observed': summary,
            'flaky': flaky,
        })

    # -- (de)serialisation for shard -> orchestrator ---------------------------------------------
    def to_json(self) -> dict:
        return {
            'evaluations': self.evaluations,
            'nontrivial': sorted(self.nontrivial),
            'distinct': sorted(self.distinct),
            'labels': dict(self.labels),
            'engines': dict(self.engines),
            'samples': self.samples,
            'excluded': dict(self.excluded),
            'excluded_examples': self.excluded_examples,
            'inconclusive': self.inconclusive,
            'violations': self.violations,
            'notes': self.notes,
            'exhaustive': self.exhaustive,
            'extra': self.extra,
            'xproc': self.xproc,
        }

    def merge(self, other: dict) -> None:
        self.evaluations += other['evaluations']
        self.nontrivial.update(other['nontrivial'])
        self.distinct.update(other['distinct'])
        self.labels.update(other['labels'])
        self.engines.update(other['engines'])
        for h, s in other['samples'].items():
            self.samples[h] = s
        while len(self.samples) > MAX_SAMPLES:
            del self.samples[max(self.samples)]
        self.excluded.update(other['excluded'])
        for k, v in other['excluded_examples'].items():
            self.excluded_examples.setdefault(k, v)
        self.inconclusive += other['inconclusive']
        self.violations.extend(other['violations'])
        self.notes.extend(other['notes'])
        for k, v in other['exhaustive'].items():
            self.exhaustive[k] = v
        for k, v in other.get('xproc', {}).items():
            if k in self.xproc and self.xproc[k]['value'] != v['value']:
                self.violations.append({
                    'property': self.prop, 'engine': 'cross-process', 'signature': v.get('signature', f'{self.prop}:differs-across-processes'),
                    'all_signatures': [v.get('signature', f'{self.prop}:differs-across-processes')],
                    'detail': f'processes with different PYTHONHASHSEED disagree: {self.xproc[k]["value"]!r} vs {v["value"]!r}',
                    'case': v.get('case'), 'observed': {'a': self.xproc[k], 'b': v}, 'flaky': False})
            else:
                self.xproc.setdefault(k, v)
        for k, v in other.get('extra', {}).items():
            if isinstance(v, (int, float)) and isinstance(self.extra.get(k, 0), (int, float)):
                self.extra[k] = self.extra.get(k, 0) + v
            else:
                self.extra[k] = v


# ------------------------------------------------------------------------------------------------
# Hypothesis driver
# ------------------------------------------------------------------------------------------------

def hyp_settings(max_examples: int, shrink: bool = True, stateful_step_count: Optional[int] = None):
    from hypothesis import HealthCheck, Phase, settings
    phases = [Phase.explicit, Phase.generate, Phase.target]
    if shrink:
        phases.append(Phase.shrink)
    kw = dict(max_examples=max_examples, database=None, deadline=None, derandomize=False,
              report_multiple_bugs=False, suppress_health_check=list(HealthCheck), phases=phases,
              print_blob=False)
    if stateful_step_count is not None:
        kw['stateful_step_count'] = stateful_step_count
    return settings(**kw)


def run_hypothesis(rec: Recorder, engine: str, strategy, check: Callable[[Any], CaseResult], *,
                   max_examples: int, seed: int, shrink: bool = True, rounds: int = 3,
                   budget_s: Optional[float] = None) -> None:
    """Generate cases from `strategy`, decide each with `check`, record coverage in `rec`.
    Findings listed as open known findings are counted and skipped so that the search continues behind
    them. A new finding fails the Hypothesis test, is shrunk, and recorded as a violation; the search
    is then repeated (up to `rounds` times) with that signature excluded, to enumerate further root causes."""
    import hypothesis
    from hypothesis import given
    from hypothesis.errors import Flaky

    session_known: set[str] = set()
    if budget_s is None:
        budget_s = 150.0 if rec.tier == 'quick' else 3 * 3600.0
    t_end = time.monotonic() + budget_s
    for rnd in range(rounds):
        state: dict[str, Any] = {'last': None}

        def body(spec):
            if time.monotonic() > t_end:
                raise StopSearch('budget')
            res = check(spec)
            rec.case(engine, spec, res)
            bad = rec.triage(engine, spec, res, session_known)
            if bad:
                state['last'] = (spec, bad, res.summary)
                if res.stop_search:
                    raise StopSearch('hang')
                raise PropertyViolation(bad[0].signature)
            if res.stop_search:
                state['hangs'] = state.get('hangs', 0) + 1
                if state['hangs'] >= 3:
                    rec.notes.append(f'{engine}: 3 cases hit the per-case watchdog; generation stopped (inconclusive for this property)')
                    raise StopSearch('budget')

        test = hypothesis.seed(derive_seed(seed, engine, rnd))(
            hyp_settings(max_examples, shrink)(given(strategy)(body)))
        try:
            test()
        except StopSearch as stop:
            if str(stop) == 'budget':
                rec.notes.append(f'{engine}: job budget of {budget_s:.0f}s reached after {rec.engines[engine]} cases; generation stopped early')
                if state['last'] is not None:
                    spec, bad, summary = state['last']
                    rec.violation(engine, spec, bad, summary)
                break
            spec, bad, summary = state['last']
            rec.violation(engine, spec, bad, summary)
            session_known.update(f.signature for f in bad)
            continue
        except PropertyViolation:
            spec, bad, summary = state['last']
            rec.violation(engine, spec, bad, summary)
            session_known.update(f.signature for f in bad)
            continue
        except Flaky:
            if state['last'] is None:
                raise
            spec, bad, summary = state['last']
            rec.violation(engine, spec, bad, summary, flaky=True)
            session_known.update(f.signature for f in bad)
            continue
        except BaseException as ex:  # unsatisfiable etc.: wrap hypothesis' multi-error
            if state['last'] is not None and isinstance(ex, BaseExceptionGroup):
                spec, bad, summary = state['last']
                rec.violation(engine, spec, bad, summary, flaky=True)
                session_known.update(f.signature for f in bad)
                continue
            raise
        break


def run_cases(rec: Recorder, engine: str, specs: Iterable[Any], check: Callable[[Any], CaseResult]) -> None:
    """Plain (enumerated / corpus) cases: no generation, no shrinking."""
    reported: set[str] = set()
    hangs = 0
    for spec in specs:
        res = check(spec)
        rec.case(engine, spec, res)
        bad = [f for f in rec.triage(engine, spec, res) if f.signature not in reported]
        if bad:
            rec.violation(engine, spec, bad, res.summary)
            reported.update(f.signature for f in bad)
        if res.stop_search:
            hangs += 1
            if hangs >= 3:
                rec.notes.append(f'{engine}: 3 cases hit the per-case watchdog; the rest of this enumeration was skipped')
                break


# ------------------------------------------------------------------------------------------------
# replay files
# ------------------------------------------------------------------------------------------------

def write_replay(prop: str, violation: dict) -> str:
    d = os.path.join(OUT_ROOT, 'replays', prop)
    os.makedirs(d, exist_ok=True)
    h = case_hash([violation['engine'], violation['signature'], violation['case']])
    path = os.path.join(d, f'{h}.json')
    with open(path, 'w') as f:
        json.dump(violation, f, indent=1, default=repr)
    return path


def load_replay(path: str) -> dict:
    with open(path) as f:
        return json.load(f)


def format_exc(ex: BaseException) -> str:
    return ''.join(traceback.format_exception(type(ex), ex, ex.__traceback__))[-6000:]


class Timer:
    def __init__(self):
        self.t0 = time.monotonic()

    def elapsed(self) -> float:
        return time.monotonic() - self.t0
