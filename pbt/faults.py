"""Line-boundary fault injection on labtech's save path, via sys.settrace (armed from inside run(), so only the process
that executes the task is traced)."""
from __future__ import annotations

import os
import signal
import sys

FILES = ('/labtech/cache.py', '/labtech/storage.py', '/labtech/serialization.py')


class InjectedFault(Exception):
    pass


class State:
    active = 0       # depth of BaseCache.save frames on the stack
    count = 0        # line events seen inside save
    fault_at = None
    action = 'raise'
    log = None
    fired = False


def _tracer(frame, event, arg):
    fn = frame.f_code.co_filename
    if not fn.endswith(FILES):
        return None
    if event == 'call':
        if frame.f_code.co_name == 'save' and fn.endswith('/labtech/cache.py'):
            State.active += 1
        return _tracer
    if event == 'return':
        if frame.f_code.co_name == 'save' and fn.endswith('/labtech/cache.py'):
            State.active -= 1
            if State.active == 0 and State.log:
                with open(State.log, 'w') as f:
                    f.write(str(State.count))
        return _tracer
    if event == 'line' and State.active > 0 and not State.fired:
        i = State.count
        State.count += 1
        if i == State.fault_at:
            State.fired = True
            if State.log:
                with open(State.log + '.fired', 'w') as f:
                    f.write(f'{i} {fn.rsplit("/", 1)[1]}:{frame.f_lineno} {frame.f_code.co_name}')
            if State.action == 'raise':
                sys.settrace(None)
                raise InjectedFault(f'injected at line event {i}: {fn.rsplit("/", 1)[1]}:{frame.f_lineno}')
            os.kill(os.getpid(), signal.SIGKILL if State.action == 'kill9' else signal.SIGTERM)
            import time
            time.sleep(30)
    return _tracer


def arm(task=None):
    """VERIF_RUN_HOOK target: called at the end of run(), just before the result is handed to the cache."""
    spec = os.environ.get('VERIF_LINE_FAULT')
    if not spec:
        return
    at, action, log = spec.split('|')
    State.active = 0
    State.count = 0
    State.fired = False
    State.fault_at = int(at) if at != 'count' else None
    State.action = action
    State.log = log or None
    sys.settrace(_tracer)


def disarm():
    sys.settrace(None)
