"""Case specs (plain JSON) for DAG runs: strategies that generate them and the builder that turns one into
live labtech task objects.

spec = {
  'nodes': [ {'id': i, 'type': 'N1', 'name': 'n3', 'mode': 'ok', 'read': True, 'payload': <scalar|list>,
              'deps': <shape>} ...]           # node i only references nodes j < i  => acyclic by construction
  'requested': [ {'ref': i, 'fresh': bool} ...],
  'lab': {'backend': ..., 'max_workers': ..., 'continue_on_failure': ..., 'context': {...}, 'bust_cache': ...,
          'displays': bool, 'storage': 'local'|'none'|...},
  'pre_cached': [ids], 'schedule': [ints]
}
shape := {'ref': j, 'fresh': bool} | {'s': scalar} | {'list': [shape..]} | {'tuple': [shape..]} | {'dict': {str: shape}}
'fresh': True means "construct a new, equal instance here instead of re-using the shared object".
"""
from __future__ import annotations

from typing import Any

from hypothesis import strategies as st

from pbt.universe import vu


# ---------------------------------------------------------------------------------------------------
# spec -> objects
# ---------------------------------------------------------------------------------------------------

class Built:
    def __init__(self, spec: dict, module=vu):
        self.spec = spec
        self.module = module
        self.nodes = {n['id']: n for n in spec['nodes']}
        self.shared: dict[int, Any] = {}
        self.instances: dict[int, list] = {n['id']: [] for n in spec['nodes']}
        for n in spec['nodes']:
            self.shared[n['id']] = self.make(n['id'])
        self.requested = [self.resolve(r) for r in spec.get('requested', [])]

    def make(self, nid: int):
        n = self.nodes[nid]
        cls = self.module.NODE_TYPES[n['type']]
        payload = n.get('payload')
        obj = cls(name=n['name'], deps=self.shape(n.get('deps', {'s': None})), mode=n.get('mode', 'ok'),
                  payload=payload, read=n.get('read', True))
        self.instances[nid].append(obj)
        return obj

    def resolve(self, ref: dict):
        if ref.get('fresh'):
            return self.make(ref['ref'])
        return self.shared[ref['ref']]

    def shape(self, sh: dict):
        if 'ref' in sh:
            return self.resolve(sh)
        if 's' in sh:
            return sh['s']
        if 'list' in sh:
            return [self.shape(x) for x in sh['list']]
        if 'tuple' in sh:
            return tuple(self.shape(x) for x in sh['tuple'])
        if 'dict' in sh:
            return {k: self.shape(v) for k, v in sh['dict'].items()}
        raise ValueError(f'bad shape {sh!r}')

    def id_of(self, task) -> int:
        for n in self.spec['nodes']:
            if n['name'] == task.name:
                return n['id']
        raise KeyError(task.name)


def shape_refs(sh: dict) -> list[dict]:
    """All {'ref','fresh'} leaves of a shape, in traversal order (with multiplicity)."""
    if 'ref' in sh:
        return [sh]
    if 's' in sh:
        return []
    if 'list' in sh:
        return [r for x in sh['list'] for r in shape_refs(x)]
    if 'tuple' in sh:
        return [r for x in sh['tuple'] for r in shape_refs(x)]
    if 'dict' in sh:
        return [r for x in sh['dict'].values() for r in shape_refs(x)]
    raise ValueError(sh)


def shape_depth(sh: dict, d: int = 0) -> int:
    """Max container nesting depth at which a task ref occurs (0 = bare field); -1 if no refs."""
    if 'ref' in sh:
        return d
    if 's' in sh:
        return -1
    kids = sh.get('list') or sh.get('tuple') or list((sh.get('dict') or {}).values())
    return max([shape_depth(x, d + 1) for x in kids], default=-1)


def direct_deps(node: dict) -> list[int]:
    """Distinct direct dependency ids in first-occurrence order."""
    out = []
    for r in shape_refs(node.get('deps', {'s': None})):
        if r['ref'] not in out:
            out.append(r['ref'])
    return out


def dep_reads(node: dict) -> list[int]:
    """Dependency ids in read order, with multiplicity (what a strict reader reads)."""
    return [r['ref'] for r in shape_refs(node.get('deps', {'s': None}))]


def closure(spec: dict, roots) -> set[int]:
    nodes = {n['id']: n for n in spec['nodes']}
    seen: set[int] = set()
    stack = list(roots)
    while stack:
        i = stack.pop()
        if i in seen:
            continue
        seen.add(i)
        stack.extend(direct_deps(nodes[i]))
    return seen


def features(spec: dict) -> dict:
    """Structural facts about a spec used for non-triviality rules and label histograms."""
    nodes = {n['id']: n for n in spec['nodes']}
    req = [r['ref'] for r in spec.get('requested', [])]
    clo = closure(spec, req)
    dependents: dict[int, set] = {i: set() for i in nodes}
    fresh_dups = 0
    fresh_in_one_parent = False
    max_depth = -1
    for i in clo:
        refs = shape_refs(nodes[i].get('deps', {'s': None}))
        per = {}
        for r in refs:
            dependents[r['ref']].add(i)
            per.setdefault(r['ref'], []).append(r['fresh'])
            if r['fresh']:
                fresh_dups += 1
        for j, fl in per.items():
            if len(fl) >= 2:
                fresh_in_one_parent = fresh_in_one_parent or any(fl)
        max_depth = max(max_depth, shape_depth(nodes[i].get('deps', {'s': None})))
    fresh_dups += sum(1 for r in spec.get('requested', []) if r.get('fresh'))
    shared = sum(1 for i in clo if len(dependents[i]) >= 2)
    req_is_dep = any(len(dependents[i]) > 0 for i in req)
    pre = set(spec.get('pre_cached', [])) & clo
    cacheable = {i for i in clo if nodes[i]['type'] in vu.CACHEABLE}
    pre &= cacheable
    return {
        'n_closure': len(clo), 'shared': shared, 'fresh_dups': fresh_dups,
        'dup_in_one_parent': fresh_in_one_parent, 'max_depth': max_depth, 'req_is_dep': req_is_dep,
        'repeat_request': len(req) != len(set(req)),
        'pre_cached_proper': 0 < len(pre) < len(cacheable), 'pre_cached_any': len(pre) > 0,
        'failing': sorted(i for i in clo if nodes[i].get('mode', 'ok') not in ('ok', 'probe', 'stubborn', 'linger')),
        'types': sorted({nodes[i]['type'] for i in clo}),
    }


# ---------------------------------------------------------------------------------------------------
# strategies
# ---------------------------------------------------------------------------------------------------

SCALARS = st.one_of(st.none(), st.booleans(), st.integers(-5, 5), st.sampled_from(['', 'a', 'b', 'x/y']),
                    st.sampled_from([0.5, -1.25]))
KEYS = st.sampled_from(['a', 'b', 'c', 'k1'])


@st.composite
def dep_shape(draw, avail: list[int], *, max_refs: int = 4, dup_bias: bool = False, allow_fresh_same_parent: bool = True):
    """A nested container holding 0..max_refs task references (possibly repeated / fresh) and scalars."""
    if not avail:
        k = 0
    else:
        k = draw(st.integers(0, max_refs))
    refs = []
    for _ in range(k):
        j = draw(st.sampled_from(avail))
        fresh = draw(st.booleans()) if dup_bias else draw(st.integers(0, 4)) == 0
        refs.append({'ref': j, 'fresh': fresh})
    if dup_bias and refs and draw(st.booleans()):
        # repeat an existing reference inside the same parent (same instance or a fresh equal one)
        r = draw(st.sampled_from(refs))
        refs.append({'ref': r['ref'], 'fresh': draw(st.booleans())})
    if not allow_fresh_same_parent:
        seen = set()
        out = []
        for r in refs:
            if r['ref'] in seen:
                continue  # one occurrence per parent
            seen.add(r['ref'])
            out.append(r)
        refs = out
    if not refs:
        return {'s': draw(SCALARS)}
    form = draw(st.integers(0, 5))
    if form == 0 and len(refs) == 1:
        return refs[0]
    leaves: list[dict] = list(refs)
    if draw(st.booleans()):
        leaves.insert(draw(st.integers(0, len(leaves))), {'s': draw(SCALARS)})

    def wrap(items: list[dict], depth: int) -> dict:
        kind = draw(st.sampled_from(['list', 'tuple', 'dict']))
        if depth < 3 and len(items) >= 2 and draw(st.booleans()):
            cut = draw(st.integers(1, len(items) - 1))
            items = [wrap(items[:cut], depth + 1)] + items[cut:]
        elif depth < 3 and draw(st.integers(0, 3)) == 0:
            items = [wrap(items, depth + 1)]
        if kind == 'dict':
            return {'dict': {f'k{i}': it for i, it in enumerate(items)}}
        return {kind: items}

    return wrap(leaves, 1)


DEFAULT_TYPES = ['N1', 'N2', 'N3', 'NN', 'Z', 'CtxSub', 'CtxSubMix', 'CtxSubKid', 'NCV']


@st.composite
def dag_spec(draw, *, min_nodes: int = 1, max_nodes: int = 8, types=None, fail_modes=(), fail_rate: int = 0,
             backends=('controlled',), max_workers=(1, 2, 3, None), dup_bias: bool = False,
             allow_fresh_same_parent: bool = True, pre_cache: bool = True, bust: bool = True,
             continue_on_failure=(True,), noread_rate: int = 0, wide: bool = False, contexts: bool = True,
             schedule_len: int = 40, max_refs: int = 4, storages=('local',), req_many: bool = False, corrupt_rate: int = 0):
    types = list(types or DEFAULT_TYPES)
    n = draw(st.integers(min_nodes, max_nodes))
    nodes = []
    for i in range(n):
        t = draw(st.sampled_from(types))
        if wide:
            # few layers, many siblings: dependencies only on a small prefix of nodes
            avail = list(range(min(i, max(1, n // 4))))
        else:
            avail = list(range(i))
        mode = 'ok'
        if fail_modes and fail_rate and draw(st.integers(0, 99)) < fail_rate:
            mode = draw(st.sampled_from(list(fail_modes)))
        read = True
        if noread_rate and draw(st.integers(0, 99)) < noread_rate:
            read = False
        if t.startswith('CtxSub'):
            payload = draw(st.lists(st.sampled_from(['a', 'b', 'c', 'zz']), max_size=3, unique=True))
        else:
            payload = draw(st.one_of(st.none(), st.integers(0, 3), st.sampled_from(['p', 'q'])))
        nodes.append({'id': i, 'type': t, 'name': f'n{i}', 'mode': mode, 'read': read, 'payload': payload,
                      'deps': draw(dep_shape(avail, max_refs=max_refs, dup_bias=dup_bias,
                                             allow_fresh_same_parent=allow_fresh_same_parent))})
    # requested: non-empty multiset, biased to include the last node(s)
    req = []
    if req_many and draw(st.integers(0, 3)) > 0:
        # many top-level tasks at once (what makes limits bind): most nodes, in a generated order
        order = draw(st.permutations(list(range(n))))
        keep = draw(st.integers(max(1, n // 2), n))
        for j in order[:keep]:
            req.append({'ref': j, 'fresh': draw(st.integers(0, 5)) == 0})
    else:
        k = draw(st.integers(1, min(4, n)))
        for _ in range(k):
            j = draw(st.one_of(st.just(n - 1), st.integers(0, n - 1)))
            req.append({'ref': j, 'fresh': draw(st.integers(0, 3 if not dup_bias else 1)) == 0})
    lab = {
        'backend': draw(st.sampled_from(list(backends))),
        'max_workers': draw(st.sampled_from(list(max_workers))),
        'continue_on_failure': draw(st.sampled_from(list(continue_on_failure))),
        'bust_cache': draw(st.booleans()) if bust else False,
        'storage': draw(st.sampled_from(list(storages))),
        'displays': False,
        'context': {},
    }
    if contexts:
        lab['context'] = draw(st.dictionaries(st.sampled_from(['a', 'b', 'c', 'd']),
                                              st.one_of(st.integers(0, 3), st.sampled_from(['u', 'v']),
                                                        st.lists(st.integers(0, 2), max_size=2)), max_size=3))
    pre = []
    if pre_cache:
        pre = sorted(set(draw(st.lists(st.integers(0, n - 1), max_size=n))))
    schedule = draw(st.lists(st.integers(0, 7), max_size=schedule_len))
    out = {'nodes': nodes, 'requested': req, 'lab': lab, 'pre_cached': pre, 'schedule': schedule}
    if corrupt_rate and pre and draw(st.integers(0, 99)) < corrupt_rate:
        out['pre_corrupt'] = sorted(set(draw(st.lists(st.sampled_from(pre), min_size=1, max_size=2))))
    return out


TWIN_OF = {'CtxSub2': 'CtxSubKid'}       # parent task type -> task type inheriting from it with exactly the same fields


@st.composite
def twin_spec(draw, **kw):
    """A dag_spec in which some nodes of a parent task type get a TWIN: a node of the inheriting type with exactly the same field
    values (same name, payload, dependencies), i.e. two tasks that differ in nothing but their type. Each twin is requested, and a
    reader node that depends on both the original and its twin is requested too."""
    sp = draw(dag_spec(**{**kw, 'types': list(kw.get('types') or DEFAULT_TYPES) + ['CtxSub2', 'CtxSub2']}))
    nodes = list(sp['nodes'])
    req = list(sp['requested'])
    cands = [n for n in nodes if n['type'] in TWIN_OF]
    if not cands:
        base = {'id': len(nodes), 'type': 'CtxSub2', 'name': f'n{len(nodes)}', 'mode': 'ok', 'read': True, 'payload': ['a'], 'deps': {'s': None}}
        nodes.append(base)
        cands = [base]
    for orig in cands[:2]:
        twin = {**orig, 'id': len(nodes), 'type': TWIN_OF[orig['type']], 'twin_of': orig['id']}
        nodes.append(twin)
        order = [{'ref': orig['id'], 'fresh': draw(st.booleans())}, {'ref': twin['id'], 'fresh': False}]
        if draw(st.booleans()):
            order.reverse()
        reader = {'id': len(nodes), 'type': draw(st.sampled_from(['NN', 'N1'])), 'name': f'n{len(nodes)}', 'mode': 'ok', 'read': True, 'payload': None,
                  'deps': {'list': order} if draw(st.booleans()) else {'dict': {'x': order[0], 'y': order[1]}}}
        nodes.append(reader)
        if draw(st.booleans()):
            req.append({'ref': twin['id'], 'fresh': False})
        req.insert(draw(st.integers(0, len(req))), {'ref': reader['id'], 'fresh': False})
    return {**sp, 'nodes': nodes, 'requested': req, 'twins': True}


@st.composite
def fanin_spec(draw, backend: str, fail_modes=('raise:ValueError', 'kill9'), max_leaves: int = 4):
    """Focused shape for the expensive backends: 2-4 leaves (some failing) read by one or two strict-reader parents, the leaves
    referenced in a generated order/nesting - what exercises the hand-over of dependency results to a child process."""
    k = draw(st.integers(2, max_leaves))
    nodes = []
    n_fail = 0
    for i in range(k):
        mode = 'ok'
        if draw(st.integers(0, 2)) == 0:
            mode = draw(st.sampled_from(list(fail_modes)))
            n_fail += 1
        nodes.append({'id': i, 'type': draw(st.sampled_from(['NN', 'N2', 'Z'])), 'name': f'n{i}', 'mode': mode, 'read': True,
                      'payload': draw(st.integers(0, 3)), 'deps': {'s': None}})
    parents = draw(st.integers(1, 2))
    for p in range(parents):
        order = draw(st.permutations(list(range(k))))
        keep = draw(st.integers(2, k))
        refs = [{'ref': j, 'fresh': draw(st.integers(0, 3)) == 0} for j in order[:keep]]
        form = draw(st.integers(0, 2))
        if form == 0:
            sh = {'list': refs}
        elif form == 1:
            sh = {'dict': {f'k{i}': r for i, r in enumerate(refs)}}
        else:
            sh = {'tuple': [refs[0], {'list': refs[1:]}]}
        nodes.append({'id': k + p, 'type': draw(st.sampled_from(['NN', 'N1'])), 'name': f'n{k + p}', 'mode': 'ok',
                      'read': draw(st.integers(0, 4)) > 0, 'payload': None, 'deps': sh})
    req = [{'ref': k + p, 'fresh': False} for p in range(parents)]
    if draw(st.booleans()):
        req.append({'ref': draw(st.integers(0, k - 1)), 'fresh': False})
    lab = {'backend': backend, 'max_workers': draw(st.sampled_from([1, 2, None])), 'continue_on_failure': True, 'bust_cache': False,
           'storage': 'local', 'displays': False, 'context': {}}
    return {'nodes': nodes, 'requested': req, 'lab': lab, 'pre_cached': [], 'schedule': draw(st.lists(st.integers(0, 7), max_size=8))}
