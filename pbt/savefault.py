"""One save under an injected fault (exception or kill), and the post-state seen from a fresh Lab. Shared by C12 and C13."""
from __future__ import annotations

import json
import os
import pickle
import shutil
import subprocess
import sys
import tempfile
import time

import labtech

from pbt import core, storages
from pbt.universe import vu


def inner_storage(kind: str, path: str):
    from labtech.storage import LocalStorage
    if kind == 'local':
        return LocalStorage(path)
    return storages.make(kind, path)


def expected_value(case: dict, gen: str):
    return {'name': 't', 'v': vu.build_shape(_norm(case['shape'])), 'deps': [], 'gen': gen}


def _norm(sh):
    return tuple(_norm(x) for x in sh) if isinstance(sh, list) else sh


def make_task(case: dict):
    return vu.RESULT_TYPES[case['type']](name=('  T ' if case['type'] == 'RN' else 't'), shape=case['shape'])


class Outcome:
    def __init__(self):
        self.reached = False          # the injection point was reached
        self.reported = ''            # 'failed' | 'succeeded' | 'raised:<type>' | 'died'
        self.is_cached = None
        self.in_cached_tasks = None
        self.cached_tasks_error = None
        self.load = ''                # 'not-attempted' | 'loaded:new' | 'loaded:old' | 'loaded:wrong' | 'failed:<...>' | 'executed'
        self.disk = {}                # what the key directory holds
        self.events = 0
        self.lines = 0
        self.fired_at = ''
        self.event_names = []
        self.same_lab_is_cached = None   # what the Lab object that ran the failing save answers afterwards

    def summary(self):
        d = dict(self.__dict__)
        d.pop('event_names', None)
        return d


def dry_run(case: dict) -> tuple[int, int]:
    """Number of storage events and of save-path line events of this case's (fault-free) save."""
    c = {**case, 'inject': {'kind': 'none'}, 'backend': 'serial'}
    out = run_case(c, count=True)
    return out.events, out.lines


def event_names(case: dict) -> list[str]:
    c = {**case, 'inject': {'kind': 'none'}, 'backend': 'serial'}
    return run_case(c, count=True).event_names


def _exit_on_sigterm(signum, frame):
    sys.exit(128 + signum)


def run_case(case: dict, count: bool = False) -> Outcome:
    out = Outcome()
    d = tempfile.mkdtemp(prefix='sf-', dir=os.environ.get('VERIF_SCRATCH'))
    obs = os.path.join(d, 'obs')
    os.makedirs(obs)
    old_env = {k: os.environ.get(k) for k in ('VERIF_OBS_DIR', 'VERIF_RUN_HOOK', 'VERIF_LINE_FAULT')}
    try:
        store = os.path.join(d, 'store')
        inner = inner_storage(case['storage'], store)
        task = make_task(case)
        os.environ['VERIF_OBS_DIR'] = obs
        overwrite = bool(case.get('overwrite'))
        if overwrite:
            lab0 = labtech.Lab(storage=inner, runner_backend='serial', context={'gen': 'old'}, notebook=False)
            lab0.run_tasks([task], disable_progress=True, disable_top=True)
        inj = case['inject']
        evlog = os.path.join(d, 'events.log')
        linelog = os.path.join(d, 'lines.log')
        if inj['kind'] == 'storage':
            storage = storages.FaultyStorage(inner, fault_at=inj['at'], action=inj.get('action', 'raise'), flavour=inj.get('flavour', 'lost'), log_path=evlog)
        elif count:
            storage = storages.FaultyStorage(inner, fault_at=None, log_path=evlog)
        else:
            storage = inner
        if inj['kind'] == 'line' or count:
            os.environ['VERIF_RUN_HOOK'] = 'pbt.faults:arm'
            os.environ['VERIF_LINE_FAULT'] = f"{inj['at'] if inj['kind'] == 'line' else 'count'}|{inj.get('action', 'raise')}|{linelog}"
        lab = labtech.Lab(storage=storage, runner_backend=case['backend'], context={'gen': 'new'}, notebook=False, max_workers=1)
        task2 = make_task(case)
        old_term = None
        if case.get('host_sigterm'):
            # the host program has its own SIGTERM handler (the common "exit cleanly" one); forked workers inherit it, so a
            # terminate arrives inside the worker as SystemExit and the save's clean-up can run
            import signal as _sig
            old_term = _sig.signal(_sig.SIGTERM, _exit_on_sigterm)
        if overwrite:
            # history: the Lab that is about to replace the entry has already looked at it (exists() is not a fault point)
            try:
                lab.is_cached(task2)
            except Exception:
                pass
        try:
            res = lab.run_tasks([task2], bust_cache=overwrite, disable_progress=True, disable_top=True)
            out.reported = 'succeeded' if task2 in res else 'failed'
        except BaseException as ex:
            out.reported = f'raised:{type(ex).__name__}'
        finally:
            if old_term is not None:
                import signal as _sig
                _sig.signal(_sig.SIGTERM, old_term)
            from pbt import faults
            faults.disarm()
            os.environ.pop('VERIF_RUN_HOOK', None)
            os.environ.pop('VERIF_LINE_FAULT', None)
        if os.path.exists(evlog):
            txt = open(evlog).read().splitlines()
            out.events = sum(1 for ln in txt if not ln.startswith('FAULT'))
            out.event_names = [ln.split(' ', 1)[1].split(':')[0] for ln in txt if not ln.startswith('FAULT')]
            fired = [ln for ln in txt if ln.startswith('FAULT')]
            if fired:
                out.reached = True
                out.fired_at = fired[0]
        if os.path.exists(linelog):
            out.lines = int(open(linelog).read() or 0)
        if os.path.exists(linelog + '.fired'):
            out.reached = True
            out.fired_at = open(linelog + '.fired').read()
        if inj['kind'] == 'none':
            out.reached = True
        try:
            out.same_lab_is_cached = lab.is_cached(task2)
        except Exception as ex:
            out.same_lab_is_cached = f'raised:{type(ex).__name__}'
        post_state(case, inner, store, obs, out)
        return out
    finally:
        for k, v in old_env.items():
            if v is None:
                os.environ.pop(k, None)
            else:
                os.environ[k] = v
        shutil.rmtree(d, ignore_errors=True)


def disk_state(case: dict, store: str, key: str) -> dict:
    kd = os.path.join(store, key)
    st = {'dir': os.path.isdir(kd)}
    if st['dir']:
        st['files'] = {fn: os.path.getsize(os.path.join(kd, fn)) for fn in sorted(os.listdir(kd))}
        try:
            json.load(open(os.path.join(kd, 'metadata.json')))
            st['metadata_ok'] = True
        except Exception:
            st['metadata_ok'] = False
    return st


def post_state(case: dict, inner, store: str, obs: str, out: Outcome) -> None:
    """What a later session sees (fresh Lab on the fault-free storage)."""
    cls = vu.RESULT_TYPES[case['type']]
    task = make_task(case)
    out.disk = disk_state(case, store, task.cache_key)
    lab = labtech.Lab(storage=inner, runner_backend='serial', context={'gen': 'probe'}, notebook=False)
    try:
        out.is_cached = lab.is_cached(task)
    except Exception as ex:
        out.is_cached = f'raised:{type(ex).__name__}'
    try:
        ct = lab.cached_tasks([cls])
        out.in_cached_tasks = sum(1 for t in ct if t == task)
    except Exception as ex:
        out.cached_tasks_error = f'{type(ex).__name__}: {ex}'[:200]
    if out.is_cached is True:
        n_before = sum(1 for r in vu.read_trace(obs) if r[0] == 'S')
        try:
            res = lab.run_tasks([task], disable_progress=True, disable_top=True)
        except BaseException as ex:
            out.load = f'failed:raised:{type(ex).__name__}'
            return
        n_after = sum(1 for r in vu.read_trace(obs) if r[0] == 'S')
        if n_after != n_before:
            out.load = 'executed'
        elif task not in res:
            out.load = 'failed:task-reported-failed'
        elif res[task] == expected_value(case, 'new'):
            out.load = 'loaded:new'
        elif case.get('overwrite') and res[task] == expected_value(case, 'old'):
            out.load = 'loaded:old'
        else:
            out.load = 'loaded:wrong'
    else:
        out.load = 'not-attempted'


def judge(prop: str, case: dict, out: Outcome, expect_reported: str) -> list[core.Finding]:
    """The disjunction both properties state: not reported cached, or cached and loads a complete correct value."""
    findings = []
    phase = 'overwrite' if case.get('overwrite') else 'first-save'
    in_window = bool(out.disk.get('dir'))
    window = 'keydir-exists' if in_window else 'keydir-absent'
    if not out.reached:
        return findings
    if expect_reported == 'failed' and out.reported != 'failed':
        findings.append(core.Finding(f'{prop}:{phase}:save-fault-but-task-reported-{out.reported}', out.fired_at))
    if out.cached_tasks_error:
        findings.append(core.Finding(f'{prop}:{phase}:cached_tasks-raises-after-the-fault:{window}', out.cached_tasks_error))
    if out.is_cached is True:
        if out.load.startswith('failed') or out.load == 'executed':
            findings.append(core.Finding(f'{prop}:{phase}:reported-cached-but-cannot-be-loaded:{window}', f'{out.load}; disk={out.disk}; fault={out.fired_at}'))
        elif out.load == 'loaded:wrong':
            findings.append(core.Finding(f'{prop}:{phase}:reported-cached-but-loads-a-wrong-value', f'disk={out.disk}; fault={out.fired_at}'))
        if out.in_cached_tasks is not None and out.in_cached_tasks != 1:
            findings.append(core.Finding(f'{prop}:{phase}:is_cached-but-cached_tasks-lists-it-{out.in_cached_tasks}-times:{window}', f'disk={out.disk}'))
    elif out.is_cached is False:
        if out.same_lab_is_cached is True:
            findings.append(core.Finding(f'{prop}:{phase}:lab-that-ran-the-failing-save-still-reports-the-entry-cached', f'a new Lab: not cached; disk={out.disk}'))
        if out.in_cached_tasks:
            findings.append(core.Finding(f'{prop}:{phase}:not-is_cached-but-listed-by-cached_tasks', f'disk={out.disk}'))
    else:
        findings.append(core.Finding(f'{prop}:{phase}:is_cached-{out.is_cached}', ''))
    return findings


# ---------------------------------------------------------------------------------------------------
# C13: classification of what a kill left on disk, independent of labtech's own loading code
# ---------------------------------------------------------------------------------------------------

_REF_CACHE: dict = {}


def reference_entries(case: dict) -> dict:
    """Bytes of a complete entry for this case ('new' and, for overwrite, 'old'), produced by fault-free saves elsewhere."""
    key = core.case_hash([case['type'], case['shape'], case['storage']])
    if key in _REF_CACHE:
        return _REF_CACHE[key]
    refs = {}
    for gen in ('new', 'old'):
        d = tempfile.mkdtemp(prefix='sfref-', dir=os.environ.get('VERIF_SCRATCH'))
        try:
            inner = inner_storage(case['storage'], os.path.join(d, 'store'))
            task = make_task(case)
            lab = labtech.Lab(storage=inner, runner_backend='serial', context={'gen': gen}, notebook=False)
            lab.run_tasks([task], disable_progress=True, disable_top=True)
            kd = os.path.join(d, 'store', task.cache_key)
            refs[gen] = {fn: open(os.path.join(kd, fn), 'rb').read() for fn in os.listdir(kd)}
        finally:
            shutil.rmtree(d, ignore_errors=True)
    _REF_CACHE[key] = refs
    return refs


def _meta_equal(a: bytes, b: bytes) -> bool:
    try:
        ja, jb = json.loads(a), json.loads(b)
    except Exception:
        return False
    for j in (ja, jb):
        j.pop('start_timestamp', None)
        j.pop('duration_seconds', None)
    return ja == jb


def classify_disk(case: dict, store: str) -> str:
    """'absent' | 'complete:new' | 'complete:old' | 'metadata=<absent|partial|complete>,data=<absent|partial|old|new|mixed>'.
    Decided by byte comparison with reference entries, independently of labtech's loading code."""
    task = make_task(case)
    kd = os.path.join(store, task.cache_key)
    if not os.path.isdir(kd):
        return 'absent'
    refs = reference_entries(case)
    files = {fn: open(os.path.join(kd, fn), 'rb').read() for fn in os.listdir(kd)}
    if 'metadata.json' not in files:
        m = 'absent'
    elif any(_meta_equal(files['metadata.json'], refs[g]['metadata.json']) for g in ('new', 'old')):
        m = 'complete'
    else:
        m = 'partial'
    states = set()
    for fn, ref_new in refs['new'].items():
        if fn == 'metadata.json':
            continue
        if fn not in files:
            states.add('absent')
        elif files[fn] == ref_new:
            states.add('new')
        elif files[fn] == refs['old'][fn]:
            states.add('old')
        else:
            states.add('partial')
    if states == {'new'}:
        d = 'new'
    elif states == {'old'}:
        d = 'old'
    elif states == {'absent'}:
        d = 'absent'
    elif states <= {'new', 'old'}:
        d = 'mixed'
    else:
        d = 'partial'
    if m == 'complete' and d in ('new', 'old'):
        return f'complete:{d}'
    return f'metadata={m},data={d}'


def run_kill_case(case: dict) -> tuple[Outcome, str]:
    """Like run_case, but also classifies the on-disk entry before labtech looks at it."""
    state = {}
    orig = post_state

    def wrapped(case_, inner, store, obs, out):
        state['disk_class'] = classify_disk(case_, store)
        orig(case_, inner, store, obs, out)
    globals()['post_state'] = wrapped
    try:
        out = run_case(case)
    finally:
        globals()['post_state'] = orig
    return out, state.get('disk_class', 'unknown')


def judge_kill(case: dict, out: Outcome, disk_class: str) -> list[core.Finding]:
    findings = []
    phase = 'overwrite' if case.get('overwrite') else 'first-save'
    if case.get('host_sigterm'):
        phase += ':terminated-under-an-inherited-SIGTERM-handler'
    if not out.reached:
        return findings
    if out.reported != 'failed':
        findings.append(core.Finding(f'C13:{phase}:worker-killed-but-task-reported-{out.reported}', out.fired_at))
    unusable = None
    if out.cached_tasks_error:
        unusable = f'cached_tasks raises ({out.cached_tasks_error})'
    if out.is_cached is True:
        if out.load.startswith('failed') or out.load == 'executed':
            unusable = f'load {out.load}'
        elif out.load == 'loaded:wrong':
            findings.append(core.Finding(f'C13:{phase}:reported-cached-but-loads-a-wrong-value', f'disk={disk_class} {out.disk}; kill={out.fired_at}'))
        elif out.in_cached_tasks is not None and out.in_cached_tasks != 1 and not out.cached_tasks_error:
            unusable = f'cached_tasks lists it {out.in_cached_tasks} times'
    elif out.is_cached is False and out.in_cached_tasks:
        findings.append(core.Finding(f'C13:{phase}:not-is_cached-but-listed-by-cached_tasks', f'disk={disk_class}'))
    if out.is_cached is False and out.same_lab_is_cached is True:
        findings.append(core.Finding(f'C13:{phase}:lab-whose-worker-was-killed-still-reports-the-removed-entry-cached', f'a new Lab: not cached; disk={disk_class} {out.disk}'))
    if unusable:
        if disk_class.startswith('metadata='):
            # the kill window the code has no protection for (no commit marker, no atomic rename): identified by what is on disk
            findings.append(core.Finding(f'C13:{phase}:killed-mid-save:{disk_class}:entry-reported-cached-but-unusable',
                                         f'{unusable}; disk={out.disk}; kill={out.fired_at}'))
        else:
            findings.append(core.Finding(f'C13:{phase}:entry-{disk_class}-on-disk-but-unusable', f'{unusable}; disk={out.disk}; kill={out.fired_at}'))
    return findings
