"""Cases over result-shape tasks (vu.RV / vu.RJ): spec -> tasks, strategy for shapes."""
from __future__ import annotations

from hypothesis import strategies as st

from pbt.universe import vu


def shapes(max_big: int = 300_000, unpicklable: bool = False):
    leaf = st.one_of(
        st.just(['none']),
        st.integers().map(lambda i: ['int', str(i)]),
        st.sampled_from([2**70, -2**65, 0, 1]).map(lambda i: ['int', str(i)]),
        st.floats(allow_nan=False).map(lambda f: ['float', f.hex()]),
        st.text(max_size=8).map(lambda s: ['str', s]),
        st.tuples(st.integers(0, 200), st.integers(0, 9)).map(lambda t: ['bytes', t[0], t[1]]),
        st.lists(st.integers(-5, 50), max_size=5).map(lambda xs: ['set', sorted(set(xs))]),
    )
    big = st.tuples(st.sampled_from([70_000, 150_000, max_big]), st.integers(0, 9)).map(lambda t: ['bytes', t[0], t[1]])

    def extend(ch):
        return st.one_of(
            st.lists(ch, max_size=4).map(lambda xs: ['list', xs]),
            st.lists(ch, max_size=3).map(lambda xs: ['tuple', xs]),
            st.lists(st.tuples(st.sampled_from(['a', 'b', 'c', 'k']), ch), max_size=3, unique_by=lambda kv: kv[0]).map(
                lambda kvs: ['dict', [list(kv) for kv in kvs]]),
        )
    base = st.recursive(leaf, extend, max_leaves=8)
    opts = [base, base, st.tuples(base, big).map(lambda t: ['list', [t[0], t[1]]])]
    return st.one_of(*opts)


def build_tasks(spec: dict) -> list:
    """spec['nodes'] = [{'name', 'type', 'shape', 'deps': [indices of earlier nodes]}]"""
    objs = []
    for n in spec['nodes']:
        cls = vu.RESULT_TYPES[n['type']]
        deps = [objs[j] for j in n.get('deps', [])]
        objs.append(cls(name=n['name'], shape=n['shape'], deps=deps if deps else None))
    return objs


@st.composite
def node_sets(draw, min_nodes: int = 1, max_nodes: int = 5, max_big: int = 300_000):
    if draw(st.integers(0, 4)) == 0:
        # siblings: cached parents that are identical except for a nested cache=None task
        k = draw(st.integers(2, 3))
        shape = draw(shapes(max_big))
        nodes = [{'name': f'z{i}', 'type': 'RZ', 'shape': ['int', str(i)], 'deps': []} for i in range(k)]
        nodes += [{'name': 'sib', 'type': 'RV', 'shape': shape, 'deps': [i]} for i in range(k)]
        return nodes
    n = draw(st.integers(min_nodes, max_nodes))
    nodes = []
    for i in range(n):
        deps = sorted(set(draw(st.lists(st.integers(0, i - 1), max_size=2)))) if i else []
        nodes.append({'name': f'r{i}', 'type': draw(st.sampled_from(['RV', 'RV', 'RJ'])), 'shape': draw(shapes(max_big)), 'deps': deps})
    return nodes
