"""Boilerplate shared by the properties that are decided on DAG runs (C01-C05, C10, C11, C17)."""
from __future__ import annotations

import os
from typing import Callable

from pbt import core, dagrun, oracles, specs

CPU = os.cpu_count() or 1


def base_labels(spec: dict, f: dict, gated: bool) -> list[str]:
    lab = spec['lab']
    labels = [f'backend={lab["backend"]}{"+gated" if gated else ""}', f'max_workers={lab["max_workers"]}']
    for k in ('shared', 'fresh_dups', 'dup_in_one_parent', 'req_is_dep', 'pre_cached_proper', 'repeat_request'):
        if f[k]:
            labels.append(k)
    if f['max_depth'] >= 2:
        labels.append('nested_depth>=2')
    if lab.get('bust_cache'):
        labels.append('bust_cache')
    if f['failing']:
        labels.append('has_failing_node')
    if not lab.get('continue_on_failure', True):
        labels.append('continue_on_failure=False')
    return labels


def run_spec(spec: dict, gated: bool = False, **kw):
    g = gated and spec['lab']['backend'] in ('fork', 'spawn')
    obs = dagrun.execute_case(spec, gated=g, **kw)
    ex = oracles.expect_for(spec, obs)
    return obs, ex, g


def engine_of(job: dict) -> str:
    return job['engine']


def backend_of(engine: str) -> tuple[str, bool]:
    if engine.endswith('+gated'):
        return engine[:-6], True
    return engine, False


def std_plan(tier: str, *, controlled=(12, 120, 2500), serial=(1, 40, 1200), fork=(2, 25, 600), spawn=(1, 6, 120),
             gated_fork=(0, 0, 0), gated_spawn=(0, 0, 0)) -> list[dict]:
    q = tier == 'quick'
    jobs = []

    def add(engine, tup, hs0):
        shards, nq, nt = tup
        for i in range(shards):
            jobs.append({'engine': engine, 'n': nq if q else nt, 'hashseed': (hs0 + i) % 8})

    add('controlled', controlled, 0)
    add('serial', serial, 1)
    add('fork', fork, 2)
    add('fork+gated', gated_fork, 3)
    add('spawn', spawn, 5)
    add('spawn+gated', gated_spawn, 6)
    return jobs


def result(obs, findings, nt, labels, *, hang_is_violation: bool = False, prop: str = '') -> core.CaseResult:
    """A per-case watchdog expiry is a violation only for the properties about termination/progress; elsewhere the
    case is inconclusive. Either way Hypothesis must not shrink it (each replay would cost a full watchdog period)."""
    findings = list(findings)
    if obs.timeout:
        labels = list(labels) + ['watchdog_expired']
        if hang_is_violation:
            findings.append(core.Finding(f'{prop}:run-did-not-terminate', oracles.exc_text(obs.exc)))
    return core.CaseResult(findings=findings, nontrivial=nt, labels=tuple(labels), summary=obs.summary(),
                           inconclusive=obs.timeout and not hang_is_violation, stop_search=obs.timeout)


def exhaustive_jobs(tier: str, shards: int = 4) -> list[dict]:
    if tier != 'quick':
        shards = 10
    return [{'engine': 'exhaustive-small', 'shard': i, 'shards': shards, 'hashseed': i % 8} for i in range(shards)]


def run_exhaustive_job(rec, job: dict, judge, *, failing: bool = False, cached: bool = False) -> None:
    """Every DAG shape up to the node bound x type/failure assignment x worker count x (optionally) every pre-cached subset, and
    for each EVERY completion schedule of the ControlledRunner."""
    from pbt import exhaustive
    q = rec.tier == 'quick'
    if failing:
        it = exhaustive.small_specs(3, types=('N1', 'NN'), modes=('ok', 'raise:ValueError', 'kill9'), reads=(True, False) if not q else (True,))
    elif cached:
        def gen():
            import itertools
            for sp in exhaustive.small_specs(3, types=('N1', 'Z') if q else ('N1', 'NN', 'Z')):
                n = len(sp['nodes'])
                for r in range(n + 1):
                    for pre in itertools.combinations(range(n), r):
                        for bust in ((False,) if q else (False, True)):
                            yield {**sp, 'pre_cached': list(pre), 'lab': {**sp['lab'], 'storage': 'local', 'bust_cache': bust}}
        it = gen()
    else:
        it = exhaustive.small_specs(3 if q else 4, types=('N1', 'NN') if q else ('N1', 'N2', 'NN'))
    # idle polling rounds multiply the schedule tree about fivefold: they are enumerated in the thorough tier for the plain variant only
    exhaustive.run_exhaustive(rec, 'exhaustive-small', it, judge, job['shard'], job['shards'], idle_rounds=1 if (not q and not failing and not cached) else 0)
