"""Rule-based state machine directly on labtech.runners.process.ProcessExecutor (the class the C04/C05/C11 anchors name):
submit(gated thunk) / release / kill / wait / cancel / stop, against a queue + running-set model. It adds executor-level depth
that whole-run cases reach only sparsely. It depends on an internal class: if that class is gone the engine reports itself
skipped (never a violation) and the API-level engines still decide the properties."""
from __future__ import annotations

import os
import shutil
import signal
import tempfile
import time

import hypothesis
from hypothesis import strategies as st
from hypothesis.stateful import RuleBasedStateMachine, precondition, rule, run_state_machine_as_test

from pbt import core


def gated_thunk(d: str, idx: int):
    tmp = os.path.join(d, f'.start.{idx}.tmp')
    with open(tmp, 'w') as f:
        f.write(str(os.getpid()))
    os.replace(tmp, os.path.join(d, f'start.{idx}'))
    g = os.path.join(d, f'gate.{idx}')
    t_end = time.monotonic() + 120
    while not os.path.exists(g):
        if time.monotonic() > t_end:
            raise RuntimeError('gate never opened')
        time.sleep(0.002)
    with open(os.path.join(d, f'end.{idx}'), 'w'):
        pass
    return ('result', idx)


def _gone(pid: int) -> bool:
    try:
        with open(f'/proc/{pid}/stat', 'rb') as f:
            return f.read().decode('ascii', 'replace').rsplit(')', 1)[1].split()[0] == 'Z'
    except (OSError, IndexError):
        return True


class Session:
    def __init__(self, max_workers: int, start_method: str = 'fork'):
        import multiprocessing

        from labtech.runners.process import ProcessExecutor
        self.mw = max_workers
        self.dir = tempfile.mkdtemp(prefix='exm-', dir=os.environ.get('VERIF_SCRATCH'))
        self.ex = ProcessExecutor(mp_context=multiprocessing.get_context(start_method), max_workers=max_workers)
        self.futures: list = []
        self.pending: list[int] = []       # model: queued, in submission order
        self.running: list[int] = []       # model: must be executing
        self.expect: dict[int, str] = {}   # idx -> 'result' | 'died'   (finished outside, not yet observed through wait())
        self.final: dict[int, str] = {}    # idx -> observed final state
        self.cancelled: set[int] = set()
        self.findings: list[core.Finding] = []
        self.ops: list = []
        self.stopped = False               # Runner.stop() is the last thing labtech does with an executor: nothing is submitted or awaited afterwards

    # -- helpers -------------------------------------------------------------------------------------------------------
    def _started(self) -> set[int]:
        return {int(f.split('.')[1]) for f in os.listdir(self.dir) if f.startswith('start.')}

    def _pid(self, idx: int) -> int:
        t_end = time.monotonic() + 10
        while time.monotonic() < t_end:
            try:
                with open(os.path.join(self.dir, f'start.{idx}')) as f:
                    txt = f.read().strip()
                if txt.isdigit() and int(txt) > 1:
                    return int(txt)
            except OSError:
                pass
            time.sleep(0.002)
        raise RuntimeError(f'harness: no pid recorded for thunk {idx}')

    def _model_start(self) -> None:
        while self.pending and len(self.running) + len(self.expect) < self.mw:
            self.running.append(self.pending.pop(0))

    def _settle(self, what: str) -> None:
        """Everything the model says must be executing has started (bounded patience), and nothing else has."""
        t_end = time.monotonic() + 6
        must = set(self.running)
        while time.monotonic() < t_end and not must <= self._started():
            time.sleep(0.005)
        started = self._started()
        missing = sorted(must - started)
        if missing:
            self.findings.append(core.Finding('C05:executor:free-worker-not-used', f'after {what}: {missing} should be executing (max_workers={self.mw}, '
                                              f'running={self.running}, queued={self.pending})'))
        alive = {i for i in started if i not in self.final and i not in self.expect and not os.path.exists(os.path.join(self.dir, f'end.{i}'))}
        extra = sorted(alive - must)
        if extra:
            self.findings.append(core.Finding('C04:executor:started-beyond-the-model', f'after {what}: {extra} executing although not due '
                                              f'(max_workers={self.mw}, model running={self.running})'))
        if len(alive) > self.mw:
            self.findings.append(core.Finding('C04:executor:max_workers-exceeded', f'after {what}: {sorted(alive)} executing, max_workers={self.mw}'))

    # -- operations ------------------------------------------------------------------------------------------------------
    def submit(self) -> None:
        idx = len(self.futures)
        self.ops.append(['submit', idx])
        fut = self.ex.submit(gated_thunk, self.dir, idx)
        self.futures.append(fut)
        self.pending.append(idx)
        # a slot still held by a finished-but-unobserved process is only freed by wait(): the model mirrors that
        self._model_start()
        self._settle(f'submit({idx})')

    def release(self, k: int) -> None:
        idx = self.running[k % len(self.running)]
        self.ops.append(['release', idx])
        with open(os.path.join(self.dir, f'gate.{idx}'), 'w'):
            pass
        pid = self._pid(idx)
        t_end = time.monotonic() + 15
        while time.monotonic() < t_end and not (os.path.exists(os.path.join(self.dir, f'end.{idx}')) and _gone(pid)):
            time.sleep(0.003)
        self.running.remove(idx)
        self.expect[idx] = 'result'

    def kill(self, k: int, sig: int) -> None:
        idx = self.running[k % len(self.running)]
        self.ops.append(['kill', idx, sig])
        pid = self._pid(idx)
        try:
            os.kill(pid, sig)
        except ProcessLookupError:
            pass
        t_end = time.monotonic() + 15
        while time.monotonic() < t_end and not _gone(pid):
            time.sleep(0.003)
        self.running.remove(idx)
        self.expect[idx] = 'died'

    def wait(self) -> None:
        self.ops.append(['wait'])
        from labtech.exceptions import TaskDiedError
        for attempt in range(4):
            done, not_done = self.ex.wait(list(self.futures), timeout_seconds=0.05)
            if all(self.futures[i].done for i in self.expect):
                break
        for idx, kind in list(self.expect.items()):
            fut = self.futures[idx]
            if not fut.done:
                self.findings.append(core.Finding('C11:executor:future-of-finished-process-never-completes', f'{idx} ({kind}) after 4 wait() calls'))
                continue
            try:
                r = fut.result()
                got = 'result' if r == ('result', idx) else f'wrong-result:{r!r}'
            except TaskDiedError:
                got = 'died'
            except BaseException as ex:
                got = f'exception:{type(ex).__name__}'
            if got != kind:
                self.findings.append(core.Finding(f'C11:executor:future-outcome-{got}-expected-{kind}', str(idx)))
            self.final[idx] = got
            del self.expect[idx]
        self._model_start()
        self._settle('wait()')
        for idx, fut in enumerate(self.futures):
            if fut.done and idx not in self.final and idx not in self.cancelled:
                self.findings.append(core.Finding('C11:executor:future-done-although-its-thunk-is-still-gated', str(idx)))

    def cancel(self) -> None:
        self.ops.append(['cancel'])
        self.ex.cancel()
        for idx in self.pending:
            self.cancelled.add(idx)
            if not self.futures[idx].cancelled:
                self.findings.append(core.Finding('C05:executor:cancel-left-a-queued-future-uncancelled', str(idx)))
        self.pending = []
        time.sleep(0.02)
        self._settle('cancel()')

    def stop(self) -> None:
        self.ops.append(['stop'])
        self.stopped = True
        pids = {idx: self._pid(idx) for idx in self.running if idx in self._started()}
        self.ex.stop()
        t_end = time.monotonic() + 15
        while time.monotonic() < t_end and not all(_gone(p) for p in pids.values()):
            time.sleep(0.005)
        alive = [i for i, p in pids.items() if not _gone(p)]
        if alive:
            self.findings.append(core.Finding('C14:executor:stop-left-workers-alive', str(alive)))
        for idx in list(self.running) + list(self.expect):
            self.cancelled.add(idx)
            self.final[idx] = 'stopped'
        self.running = []
        self.expect = {}
        # stop() does not start queued work itself: that happens at the next submit()/wait()
        self._settle('stop()')

    def close(self) -> None:
        try:
            for idx in range(len(self.futures)):
                with open(os.path.join(self.dir, f'gate.{idx}'), 'w'):
                    pass
            self.ex.cancel()
            self.ex.stop()
        except Exception:
            pass
        shutil.rmtree(self.dir, ignore_errors=True)


def replay_ops(mw: int, ops: list) -> list[core.Finding]:
    s = Session(mw)
    try:
        for op in ops:
            if op[0] == 'submit':
                s.submit()
            elif op[0] == 'release' and op[1] in s.running:
                s.release(s.running.index(op[1]))
            elif op[0] == 'kill' and op[1] in s.running:
                s.kill(s.running.index(op[1]), op[2])
            elif op[0] == 'wait':
                s.wait()
            elif op[0] == 'cancel':
                s.cancel()
            elif op[0] == 'stop':
                s.stop()
            if s.findings or s.stopped:
                break
        return list(s.findings)
    finally:
        s.close()


def run_machines(rec: core.Recorder, engine: str, prefix: str, n: int, steps: int, seed: int) -> None:
    """prefix: only findings whose signature starts with it count for the calling property (others are that other property's)."""
    try:
        from labtech.runners.process import ProcessExecutor  # noqa: F401
    except Exception as ex:
        rec.notes.append(f'{engine}: skipped, labtech.runners.process.ProcessExecutor not importable ({ex!r})')
        return
    state = {'last': None}

    class Machine(RuleBasedStateMachine):
        def __init__(self):
            super().__init__()
            self.s = None

        @precondition(lambda self: self.s is None)
        @rule(mw=st.sampled_from([1, 2, 3]))
        def start(self, mw):
            self.s = Session(mw)

        def _check(self):
            bad = [f for f in self.s.findings if f.signature.startswith(prefix)]
            bad = rec.triage(engine, {'max_workers': self.s.mw, 'ops': self.s.ops}, core.CaseResult(findings=bad))
            if bad:
                state['last'] = ({'max_workers': self.s.mw, 'ops': list(self.s.ops)}, bad)
                raise core.PropertyViolation(bad[0].signature)

        @precondition(lambda self: self.s is not None and not self.s.stopped and len(self.s.futures) < 9)
        @rule()
        def submit(self):
            self.s.submit()
            self._check()

        @precondition(lambda self: self.s is not None and not self.s.stopped and self.s.running)
        @rule(k=st.integers(0, 5))
        def release(self, k):
            self.s.release(k)
            self._check()

        @precondition(lambda self: self.s is not None and not self.s.stopped and self.s.running)
        @rule(k=st.integers(0, 5), sig=st.sampled_from([int(signal.SIGKILL), int(signal.SIGTERM)]))
        def kill(self, k, sig):
            self.s.kill(k, sig)
            self._check()

        @precondition(lambda self: self.s is not None and not self.s.stopped)
        @rule()
        def wait(self):
            self.s.wait()
            self._check()

        @precondition(lambda self: self.s is not None and not self.s.stopped and self.s.pending)
        @rule()
        def cancel(self):
            self.s.cancel()
            self._check()

        @precondition(lambda self: self.s is not None and not self.s.stopped and (self.s.running or self.s.expect))
        @rule()
        def stop(self):
            self.s.stop()
            self._check()

        def _finish(self):
            ops = self.s.ops
            kinds = {o[0] for o in ops}
            nt = ('kill' in kinds or 'release' in kinds) and 'wait' in kinds and any(o[0] == 'submit' for o in ops[2:])
            rec.case(engine, {'max_workers': self.s.mw, 'ops': ops}, core.CaseResult(nontrivial=nt, labels=tuple(f'op={k}' for k in sorted(kinds)),
                                                                                      summary={'ops': ops[:14]}))
            self.s.close()
            self.s = None

        @precondition(lambda self: self.s is not None and self.s.stopped)
        @rule()
        def discard_stopped_executor(self):
            # as Lab does after Runner.stop(): the executor is dropped; a later run builds a new one
            self._finish()

        def teardown(self):
            if self.s is not None:
                self._finish()

    for rnd in range(2):
        state['last'] = None
        try:
            run_state_machine_as_test(hypothesis.seed(core.derive_seed(seed, engine, rnd))(Machine),
                                      settings=core.hyp_settings(n, shrink=(rec.tier == 'thorough'), stateful_step_count=steps))
        except core.PropertyViolation:
            case, bad = state['last']
            rec.violation(engine, case, bad, None)
            continue
        except Exception as ex:
            if state['last'] is not None:
                case, bad = state['last']
                rec.violation(engine, case, bad, {'error': repr(ex)[:200]}, flaky=True)
                continue
            raise
        break
