"""A labtech user script whose task types are defined in __main__ (what most scripts do). Run as a SCRIPT:
    python /verif/pbt/mainscript.py <case.json> <out.json>
Under the spawn backend the workers re-import this file as __mp_main__."""
import json
import os
import sys
from typing import Any

import labtech


def _note(kind, task):
    d = os.environ.get('VERIF_OBS_DIR')
    if d:
        fd = os.open(os.path.join(d, 'mainscript.trace'), os.O_WRONLY | os.O_APPEND | os.O_CREAT, 0o644)
        try:
            os.write(fd, f'{kind} {task.name} {os.getpid()} {type(task).__module__} {task.cache_key}\n'.encode())
        finally:
            os.close(fd)


@labtech.task
class Leaf:
    name: str
    seed: int
    opts: Any = None

    def run(self):
        _note('RUN', self)
        return ('leaf', self.name, self.seed)


@labtech.task
class Parent:
    name: str
    leaf: Leaf
    scale: float = 1.0
    extras: Any = None

    def run(self):
        _note('RUN', self)
        return ('parent', self.name, self.leaf.result, self.scale)


def build(case):
    leaves = [Leaf(name=f'l{i}', seed=s, opts=o) for i, (s, o) in enumerate(case['leaves'])]
    parents = [Parent(name=f'p{i}', leaf=leaves[j % len(leaves)], scale=sc, extras=[leaves[j % len(leaves)]] if ex else None)
               for i, (j, sc, ex) in enumerate(case['parents'])]
    return leaves, parents


def main():
    import logging
    labtech.logger.handlers = [logging.NullHandler()]
    case = json.load(open(sys.argv[1]))
    out = {}
    try:
        leaves, parents = build(case)
        used = []
        for p_ in parents:
            if not any(p_.leaf is u for u in used):
                used.append(p_.leaf)
        tasks = parents + used       # what the run needs: the requested parents and the leaves they depend on
        lab = labtech.Lab(storage=case['storage'], runner_backend=case['b1'], notebook=False, max_workers=2)
        res1 = lab.run_tasks(parents, disable_progress=True, disable_top=True)
        out['keys_in_parent'] = {t.name: t.cache_key for t in tasks}
        out['values1'] = {t.name: repr(v) for t, v in res1.items()}
        out['is_cached'] = {t.name: lab.is_cached(t) for t in tasks}
        out['storage_keys'] = sorted(k for k in os.listdir(case['storage']) if os.path.isdir(os.path.join(case['storage'], k)))
        n1 = len(open(os.path.join(os.environ['VERIF_OBS_DIR'], 'mainscript.trace')).read().splitlines())
        leaves2, parents2 = build(case)
        lab2 = labtech.Lab(storage=case['storage'], runner_backend=case['b2'], notebook=False, max_workers=2)
        res2 = lab2.run_tasks(parents2, disable_progress=True, disable_top=True)
        out['values2'] = {t.name: repr(v) for t, v in res2.items()}
        lines = open(os.path.join(os.environ['VERIF_OBS_DIR'], 'mainscript.trace')).read().splitlines()
        out['runs_in_second'] = lines[n1:]
        out['worker_lines'] = lines[:n1]
        try:
            ct = lab2.cached_tasks([Leaf, Parent])
            out['cached_tasks'] = sorted(f'{type(t).__name__}:{t.name}:{t.cache_key}' for t in ct)
            out['cached_tasks_equal'] = all(any(t == o for o in tasks) for t in ct)
        except BaseException as ex:
            out['cached_tasks_error'] = f'{type(ex).__name__}: {ex}'[:300]
    except BaseException as ex:
        out['error'] = f'{type(ex).__name__}: {ex}'[:300]
    with open(sys.argv[2], 'w') as f:
        json.dump(out, f)
    sys.stdout.flush()
    os._exit(0)


if __name__ == '__main__':
    main()
