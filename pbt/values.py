"""Value algebra shared by the task universe (what run() returns) and the reference evaluator.
Harness code only: nothing here comes from labtech."""
from __future__ import annotations

import hashlib
import json


def digest(v) -> str:
    return hashlib.sha1(repr(v).encode('utf-8', 'backslashreplace')).hexdigest()[:12]


def ctx_digest(ctx) -> str:
    """Digest of a (filtered) context, ignoring the per-run nonce."""
    if ctx is None:
        return 'none'
    items = {k: v for k, v in ctx.items() if k != 'nonce'}
    return digest(json.dumps(items, sort_keys=True, default=repr))


def combine(type_name: str, name: str, payload, ctxd: str, dep_digests, nonce):
    """The value a node computes. Embeds the node's identity, every dependency value read (in traversal
    order) and the nonce of the run that executed it, so any swapped/stale/foreign result changes it."""
    return (type_name, name, payload, ctxd, tuple(dep_digests), nonce)
