#!/bin/sh
# Offline setup: make sure hypothesis is importable by /venv/bin/python (it normally already is).
HERE="$(cd "$(dirname "$0")" && pwd)"
if ! /venv/bin/python -c "import hypothesis" >/dev/null 2>&1; then
    /venv/bin/python -m pip install -q --no-index --find-links /opt/veriftools/wheels --target "$HERE/.deps" hypothesis || exit 1
fi
PYTHONPATH="/repo:$HERE:$HERE/.deps" /venv/bin/python -c "import hypothesis, labtech, pbt.core; print('setup ok: hypothesis', hypothesis.__version__)"
