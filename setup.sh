#!/bin/sh
# Offline setup: make sure hypothesis is importable by /venv/bin/python (it normally already is).
HERE="$(cd "$(dirname "$0")" && pwd)"
if ! /venv/bin/python -c "import hypothesis" >/dev/null 2>&1; then
    /venv/bin/python -m pip install -q --no-index --find-links /opt/veriftools/wheels --target "$HERE/.deps" hypothesis || exit 1
fi
# optional: atheris for the coverage-guided secondary engine of C18's thorough tier (skipped with a note if unavailable)
if ! PYTHONPATH="$HERE/.deps" /venv/bin/python -c "import atheris" >/dev/null 2>&1; then
    /venv/bin/python -m pip install -q --no-index --find-links /opt/veriftools/wheels --target "$HERE/.deps" atheris >/dev/null 2>&1 || echo "setup: atheris not installed (C18 thorough runs without its fuzzing engine)"
fi
PYTHONPATH="/repo:$HERE:$HERE/.deps" /venv/bin/python -c "import hypothesis, labtech, pbt.core; print('setup ok: hypothesis', hypothesis.__version__)"
