"""Renders seeded/RESULTS.tsv (written by tools/seed_sweep.sh) as the markdown table of DESIGN.md section 5."""
import collections
import json
import os
import re

HERE = os.path.dirname(os.path.dirname(os.path.abspath(__file__)))
rows = collections.OrderedDict()
for line in open(os.path.join(HERE, 'seeded', 'RESULTS.tsv')):
    seed, chk, ex, sigs = (line.rstrip('\n').split('\t') + ['', '', '', ''])[:4]
    rows.setdefault(seed, []).append((chk, ex, sigs.split()))


def key(s):
    m = re.match(r'C(\d+)(?:-r(\d+))?-(\d+)', s)
    return (int(m.group(1)), int(m.group(2) or 1), int(m.group(3)))


lines = ['| seeded change | what it breaks / what it needs | caught by (quick tier) | signature (first) |', '|---|---|---|---|']
caught = missed = 0
for seed in sorted(rows, key=key):
    meta = {}
    try:
        meta = json.load(open(os.path.join(HERE, 'seeded', seed, 'meta.json')))
    except Exception:
        pass
    title = (meta.get('title') or '').replace('|', '/')
    needs = (meta.get('needs_to_manifest') or '').replace('|', '/').replace('\n', ' ')
    if len(needs) > 110:
        needs = needs[:107] + '...'
    hits = [(c, s) for c, e, s in rows[seed] if e == 'exit=1']
    if hits:
        caught += 1
        by = ', '.join(c for c, _ in hits)
        sig = hits[0][1][0] if hits[0][1] else ''
    else:
        missed += 1
        by = '**missed**'
        sig = ''
    lines.append(f'| {seed} | {title}: {needs} | {by} | `{sig}` |')
lines.append('')
lines.append(f'{caught} of {caught + missed} seeded changes are caught by the quick tier of a registered check.')
print('\n'.join(lines))
