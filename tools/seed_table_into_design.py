"""Replaces the table of DESIGN.md section 5 (header row .. 'N of N seeded changes are caught' line) by the output of tools/seed_table.py."""
import os
import re
import subprocess
import sys
HERE = os.path.dirname(os.path.dirname(os.path.abspath(__file__)))
table = subprocess.check_output([sys.executable, os.path.join(HERE, 'tools', 'seed_table.py')]).decode().rstrip('\n')
p = os.path.join(HERE, 'DESIGN.md')
s = open(p).read()
m = re.search(r'^\| seeded change \|.*?^\d+ of \d+ seeded changes are caught by the quick tier of a registered check\.$', s, re.S | re.M)
assert m, 'table not found'
open(p, 'w').write(s[:m.start()] + table + s[m.end():])
print(table.splitlines()[-1])
