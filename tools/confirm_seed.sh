#!/bin/sh
# usage: tools/confirm_seed.sh <staging-dir-with-patch.diff+demo> <name>
# Confirms in a scratch worktree of /repo HEAD: suite passes with the patch, demo fails with it, demo passes without it.
# On success copies the directory to /verif/seeded/<name>/ and records what was run in meta.json.
SRC="$1"; NAME="$2"
WT=/tmp/confirm-wt-$$
git -C /repo worktree add -q --detach "$WT" HEAD || exit 2
cd "$WT" || exit 2
mkdir -p seeded/x && cp -r "$SRC"/* seeded/x/
DEMO=$(ls seeded/x/demo*.py | head -1)
ok=1
if git apply "$SRC/patch.diff" 2>/dev/null || git apply -3 "$SRC/patch.diff" 2>/dev/null; then :; else echo "PATCH DOES NOT APPLY to current HEAD"; ok=0; fi
if [ $ok = 1 ]; then
  SUITE=$(PYTHONPATH="$WT" /venv/bin/python -m pytest -q -p no:cacheprovider --timeout=900 2>&1 | tail -1)
  echo "suite with patch: $SUITE"
  case "$SUITE" in *"103 passed"*|"104 passed"*) ;; *) ok=0;; esac
  PYTHONPATH="$WT" timeout 300 /venv/bin/python "$DEMO" >/tmp/confirm-demo-with.$$ 2>&1; RC1=$?
  echo "demo with patch rc=$RC1"; [ $RC1 != 0 ] || ok=0
  git checkout -q -- labtech
  PYTHONPATH="$WT" timeout 300 /venv/bin/python "$DEMO" >/tmp/confirm-demo-without.$$ 2>&1; RC2=$?
  echo "demo without patch rc=$RC2"; [ $RC2 = 0 ] || ok=0
fi
cd /verif
if [ $ok = 1 ]; then
  mkdir -p "/verif/seeded/$NAME" && cp -r "$SRC"/* "/verif/seeded/$NAME/"
  /venv/bin/python - "$NAME" "$SUITE" "$RC1" "$RC2" <<'PY'
import json, sys, subprocess
name, suite, rc1, rc2 = sys.argv[1:5]
p = f'/verif/seeded/{name}/meta.json'
try: m = json.load(open(p))
except Exception: m = {}
m['confirmed_by_verifier'] = {
  'repo_head': subprocess.check_output(['git', '-C', '/repo', 'rev-parse', '--short', 'HEAD']).decode().strip(),
  'ran': ['git worktree add <scratch> HEAD', 'git apply patch.diff', 'pytest (full suite)', 'demo with patch', 'git checkout -- labtech', 'demo without patch'],
  'suite_with_patch': suite, 'demo_rc_with_patch': int(rc1), 'demo_rc_without_patch': int(rc2)}
json.dump(m, open(p, 'w'), indent=1)
PY
  echo "CONFIRMED -> /verif/seeded/$NAME"
else
  echo "NOT CONFIRMED: $NAME"
fi
git -C /repo worktree remove --force "$WT"
rm -f /tmp/confirm-demo-with.$$ /tmp/confirm-demo-without.$$
