#!/bin/sh
# quick sanity before committing: every module imports and every property plans both tiers
cd /verif && PYTHONPATH=/repo:/verif /venv/bin/python - <<'PY'
import importlib, json, sys
ok = True
for l in open('properties.jsonl'):
    pid = json.loads(l)['id']
    try:
        m = importlib.import_module(f'pbt.props.{pid.lower()}')
        assert m.plan('quick') and m.plan('thorough') and isinstance(m.RULE, str) and m.LEVEL
    except Exception as ex:
        ok = False
        print('BROKEN', pid, repr(ex)[:300])
print('selfcheck', 'ok' if ok else 'FAILED')
sys.exit(0 if ok else 1)
PY
