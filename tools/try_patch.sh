#!/bin/sh
# usage: tools/try_patch.sh <patch.diff> <ID> [<ID>...]   -- applies the patch to /repo, runs the quick checks, reverts.
P="$1"; shift
cd /repo || exit 2
if [ -n "$(git status --porcelain)" ]; then echo "/repo not clean"; exit 2; fi
git apply "$P" || git apply -3 "$P" || patch -p1 --no-backup-if-mismatch < "$P" || { echo "patch does not apply"; git checkout -- .; exit 2; }
cd /verif
for id in "$@"; do
  ./check "$id" --tier "${TIER:-quick}" 2>&1 | grep -E "VIOLATION|signature=|quick:|thorough:|HARNESS" | head -12
done
cd /repo && git checkout -- . && git clean -fdq . >/dev/null 2>&1
git -C /repo status --porcelain | head -3
