#!/bin/sh
# usage: tools/try_patch.sh <patch.diff> <ID> [<ID>...]
# Applies the patch in a scratch worktree of /repo HEAD (never in /repo), runs the checks against it, removes the worktree.
# Evidence and replays of these runs go to a scratch directory, not to /verif. Prints one summary line per check.
P="$1"; shift
HERE="$(cd "$(dirname "$0")/.." && pwd)"
WT=$(mktemp -d /tmp/mutant-wt-XXXXXX); rmdir "$WT"
for try in 1 2 3 4 5; do git -C /repo worktree add -q --detach "$WT" HEAD 2>/dev/null && break; sleep 1; done
[ -d "$WT" ] || { echo "cannot create a scratch worktree"; exit 2; }
( cd "$WT" && { git apply "$P" 2>/dev/null || git apply -3 "$P" 2>/dev/null || patch -s -p1 --no-backup-if-mismatch < "$P"; } ) || { echo "PATCH DOES NOT APPLY"; git -C /repo worktree remove --force "$WT"; exit 2; }
OUT=$(mktemp -d /tmp/mutant-out-XXXXXX)
cd "$HERE"
for id in "$@"; do
  VERIF_REPO="$WT" VERIF_OUT="$OUT" ./check "$id" --tier "${TIER:-quick}" > "$OUT/$id.log" 2>&1
  rc=$?
  sigs=$(grep -o "signature=[^ ]*" "$OUT/$id.log" | sort -u | head -${LINES_MAX:-4} | tr '\n' ' ')
  echo "RESULT $id exit=$rc $(grep -E "quick:|thorough:" "$OUT/$id.log" | sed 's/.*evaluations/evaluations/') $sigs"
  grep -E "HARNESS" "$OUT/$id.log" | head -2
done
git -C /repo worktree remove --force "$WT"
rm -rf "$OUT"
