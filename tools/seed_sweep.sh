#!/bin/sh
# Runs every seeded change under /verif/seeded against the quick check of its own property (plus listed companions) in scratch
# worktrees and writes /verif/seeded/RESULTS.tsv:  seed <TAB> check <TAB> exit <TAB> signatures
HERE="$(cd "$(dirname "$0")/.." && pwd)"
cd "$HERE"
OUT="$HERE/seeded/RESULTS.tsv"
: > "$OUT.tmp"
: > "$OUT.jobs"
export SWEEP_OUT="$OUT" SWEEP_HERE="$HERE"
# ONLY=<substring> restricts the sweep to the seeded changes whose name contains it (e.g. ONLY=-r5-)
for d in $(ls -d "$HERE"/seeded/*"${ONLY:-}"*/ | xargs -n1 basename); do
  id=${d%%-*}
  extra=""
  case "$d" in
    C10-1) extra="C11";; C06-1|C06-2) extra="C07";; C08-2) extra="C09";; C11-2) extra="C10";;
    C09-r2-2) extra="C07";; C09-r2-3) extra="C08";; C08-r2-2) extra="C03";; C08-r2-3) extra="C09";; C03-r2-3) extra="C15";;
    C12-r2-1) extra="C14";; C14-r2-1) extra="C12";; C01-r2-2) extra="C02";; C01-r2-3) extra="C16";; C04-r2-2) extra="C05 C11";;
    C06-r2-1) extra="C08";; C06-r2-2) extra="C07";; C07-r2-1) extra="C06";; C13-r2-2) extra="C11 C05";; C02-r2-2) extra="C01";; C02-r2-3) extra="C03";;
    C16-r2-3) extra="C15";; C10-r2-2) extra="C11";; C07-r2-2) extra="C09";;
    C01-r3-1) extra="C07";; C02-r3-1|C02-r3-2) extra="C01";; C03-r3-1) extra="C09";; C10-r3-2) extra="C02";; C05-r3-1) extra="C11";;
    C07-r3-1) extra="C06";; C07-r3-2) extra="C09";; C09-r3-1) extra="C08";; C12-r3-2) extra="C14";; C14-r3-2) extra="C12";; C17-r3-2) extra="C10";;
    C18-r3-2) extra="C06";; C08-r3-2) extra="C03";; C11-r3-1|C11-r3-2) extra="C10";;
    C06-r4-2) extra="C08";; C09-r4-1|C09-r4-2) extra="C08";; C10-r4-1) extra="C11";; C02-r4-1) extra="C03";; C13-r4-2) extra="C12";;
    C06-r4-1) extra="C18";; C11-r4-2) extra="C05";; C05-r4-2) extra="C11";;
    C01-r5-1) extra="C03";; C01-r5-2) extra="C08";; C05-r5-1) extra="C11";; C11-r5-1) extra="C10";; C11-r5-2) extra="C14";; C10-r5-1) extra="C11";;
    C17-r5-1) extra="C01";;
    C02-r6-1) extra="C01 C03";; C06-r6-1|C06-r6-2) extra="C08";; C09-r6-2) extra="C08";; C13-r6-1) extra="C12 C14";; C16-r6-1) extra="C01";;
    C16-r6-2) extra="C15";; C07-r6-2) extra="C15";; C15-r6-2) extra="C07";;
    C10-r7-1) extra="C11";;
  esac
  echo "$d $id $extra" | sed 's/ *$//' >> "$OUT.jobs"      # (xargs -L continues a line that ends in a blank)
done
# PAR seeded changes are tried at a time (default 1; each one uses its own scratch worktree and output directory)
sort "$OUT.jobs" | xargs -P "${PAR:-1}" -L 1 sh -c '
  d=$0; OUT=$SWEEP_OUT; HERE=$SWEEP_HERE
  LINES_MAX=3 "$HERE/tools/try_patch.sh" "$HERE/seeded/$d/patch.diff" "$@" 2>&1 | grep "^RESULT" | while read -r _ chk ex rest; do
    sigs=$(echo "$rest" | grep -o "signature=[^ ]*" | sed "s/signature=//" | tr "\n" " ")
    printf "%s\t%s\t%s\t%s\n" "$d" "$chk" "$ex" "$sigs" >> "$OUT.tmp"
  done'
rm -f "$OUT.jobs"
sort -o "$OUT.tmp" "$OUT.tmp"
mv "$OUT.tmp" "$OUT"
echo SWEEPDONE
