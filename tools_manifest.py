"""Regenerates MANIFEST.json from the table below (kept in one place so it is always valid and current)."""
import json, os, sys
HERE = os.path.dirname(os.path.abspath(__file__))
props = [json.loads(l) for l in open(os.path.join(HERE, 'properties.jsonl'))]

# id -> (category, technique, level text, level note); absent => not yet claimed
CLAIMS = {}
NOT_YET = 'check not built yet in this round of work (see DESIGN.md section 2 for the planned generator and oracle)'

def load_claims():
    p = os.path.join(HERE, 'claims.json')
    return json.load(open(p)) if os.path.exists(p) else {}

def main():
    claims = load_claims()
    checks, na = [], []
    for p in props:
        pid = p['id']
        c = claims.get(pid)
        if not c:
            na.append({'property_id': pid, 'reason': NOT_YET})
            continue
        checks.append({
            'property_id': pid,
            'quick_cmd': f'./check {pid} --tier quick',
            'thorough_cmd': f'./check {pid} --tier thorough',
            'evidence_file': f'/verif/evidence/{pid}.json',
            'replay_cmd_template': f'./check {pid} --replay {{path}}',
            'engine': 'pbt',
            'level_claimed': {'category': c['category'], 'text': c['text'], 'design_ref': f'DESIGN.md section 2, {pid}'},
            'level_note': c['note'],
            'technique': c['technique'],
        })
    manifest = {
        'version': 1,
        'setup_cmd': './setup.sh',
        'hooks': {
            'guard': 'BEN_DENHAM_LABTECH_VERIF',
            'enable': 'no source hooks: every observation uses a public extension point (custom RunnerBackend/Runner, Storage, Cache, task run() bodies, logging handlers, sys.settrace, signals); ./check exports BEN_DENHAM_LABTECH_VERIF=1 for uniformity but labtech never reads it',
            'baseline_off_cmd': 'cd /repo && /venv/bin/python -m pytest -ra -q -p no:cacheprovider --timeout=900 --continue-on-collection-errors',
            'source_commits': [],
            'add_only': True,
        },
        'engines': [
            {'name': 'pbt', 'path': 'pbt/', 'serves_properties': [c['property_id'] for c in checks],
             'kind_free_text': 'Hypothesis-generated case specs (DAGs, parameter trees, op sequences, schedules, fault points) decided by explicit oracles (reference evaluator, dictionary model, round trips, validity predicates over observed histories); sharded over 16 processes; shrunk failures become replay files'},
        ],
        'checks': checks,
        'not_applicable': na,
        'notes': 'Exit codes of ./check: 0 held (KNOWN-FINDING lines allowed), 1 VIOLATION, 2 harness error/inconclusive. See DESIGN.md.',
    }
    if not na:
        del manifest['not_applicable']
    json.dump(manifest, open(os.path.join(HERE, 'MANIFEST.json'), 'w'), indent=1)
    try:
        import jsonschema
        jsonschema.validate(manifest, json.load(open('/root/.vp/MANIFEST.schema.json')))
        print('MANIFEST.json valid;', len(checks), 'claimed,', len(na), 'not yet')
    except ImportError:
        print('written (jsonschema not importable here)')

if __name__ == '__main__':
    main()
